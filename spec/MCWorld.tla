------------------------------ MODULE MCWorld ------------------------------
(***************************************************************************)
(* Model-checking wrapper around World.tla: TLC explores the state graph   *)
(* of the world for one operation family under small constants and exports *)
(* every edge (pre-world, event, post-world) as one JSON line.  The driver  *)
(* turns each edge into a script (a real history from the empty world to    *)
(* the edge's pre-state, then the edge) which the harness executes on the   *)
(* real library; the recorded traces are validated by TraceWorld.           *)
(*                                                                          *)
(* Invariants checked on the model itself:                                  *)
(*   TypeOK       - every reachable world satisfies the object invariants   *)
(*   (action)     - a panicking outcome leaves the world unchanged, every   *)
(*                  representative outcome is accepted by Accepts           *)
(***************************************************************************)
EXTENDS World, Json

CONSTANTS Family,      \* operation family (string)
          MaxTok,      \* element tokens 0..MaxTok
          MaxLen,      \* receivers are explored up to this length
          MaxLit,      \* operand literals up to this length
          MaxFuel      \* bound on the number of "costly" steps (families alias*)

VARIABLES world,
          fuel         \* exploration budget; not part of the specified system

Toks == 0..MaxTok
SeqsUpTo(S, n) == UNION {[1..k -> S] : k \in 0..n}
Lits == SeqsUpTo(Toks, MaxLit)
Idx(n) == (-(n + 1))..(n + 1)       \* every valid index, zero, first invalid on both sides
Slots(n) == 0..(n + 1)
Pairs == {<<k, v>> : k \in Toks, v \in 0..1}
PairLits == SeqsUpTo(Pairs, MaxLit)                       \* for Go maps (structure)
CodeLits == SeqsUpTo({ACode(k, v) : k \in Toks, v \in 0..1}, MaxLit)   \* association tokens

E(k, m, self, args, ec) == [k |-> k, m |-> m, self |-> self, args |-> args, ec |-> ec]

Small(w) == Family \in {"stack", "queueseq"} \/ \A i \in 1..Len(w) : Len(w[i].s) <= MaxLen

\* arrays around and beyond the default capacity (16) of stacks and queues
Pattern(n) == [i \in 1..n |-> i % 3]
BigLens == {DefaultCap - 1, DefaultCap, DefaultCap + 1, 2 * DefaultCap + 1}

----------------------------------------------------------------------------
(* Method events on receiver id with n elements; operands from Ops (ids).   *)

\* the nil Go slice: an empty array like any other (the same abstract object)
NilArr(ec) == {E("GoArray", "NewNil", 0, <<>>, ec)}

SeqReadEv(k, id) == {E(k, m, id, <<>>, "") : m \in {"AsArray", "GetIterator", "GetSize", "IsEmpty"}}

AccessEv(k, id, n) ==
    {E(k, "GetValue", id, <<i>>, "") : i \in Idx(n)} \cup
    {E(k, "GetValues", id, <<i, j>>, "") : i \in Idx(n), j \in Idx(n)}

UpdateEv(k, id, n, T, Ops) ==
    {E(k, "SetValue", id, <<i, t>>, "") : i \in Idx(n), t \in T} \cup
    {E(k, "SetValues", id, <<i, o>>, "") : i \in Idx(n), o \in Ops}

SortEv(k, id) ==
    {E(k, m, id, <<>>, "") : m \in {"SortValues", "ReverseValues", "ShuffleValues"}} \cup
    {E(k, "SortValuesWithRanker", id, <<r>>, "") : r \in Rankers}

ExpandEv(k, id, n, T, Ops) ==
    {E(k, "InsertValue", id, <<s, t>>, "") : s \in Slots(n), t \in T} \cup
    {E(k, "InsertValues", id, <<s, o>>, "") : s \in Slots(n), o \in Ops} \cup
    {E(k, "AppendValue", id, <<t>>, "") : t \in T} \cup
    {E(k, "AppendValues", id, <<o>>, "") : o \in Ops} \cup
    {E(k, "RemoveValue", id, <<i>>, "") : i \in Idx(n)} \cup
    {E(k, "RemoveValues", id, <<i, j>>, "") : i \in Idx(n), j \in Idx(n)} \cup
    {E(k, "RemoveAll", id, <<>>, "")}

SearchEv(k, id, T, Ops) ==
    {E(k, m, id, <<t>>, "") : m \in {"GetIndex", "ContainsValue"}, t \in T} \cup
    {E(k, m, id, <<o>>, "") : m \in {"ContainsAny", "ContainsAll"}, o \in Ops}

IterEv(id, n) ==
    {E("Iter", m, id, <<>>, "") : m \in {"HasNext", "HasPrevious", "GetNext", "GetPrevious", "ToStart",
                                          "ToEnd", "GetSlot", "GetSize", "IsEmpty"}} \cup
    {E("Iter", "ToSlot", id, <<j>>, "") : j \in (-(n + 2))..(n + 2)}

----------------------------------------------------------------------------
(* Family "list" (C01): object 1 is the receiver (List or Array); an        *)
(* operand is made from a Go array literal (objects 2 and 3); bulk          *)
(* operations take the operand or the receiver itself.                      *)

ListUnary(w) ==
    LET k == w[1].kind  n == Len(w[1].s) IN
    SeqReadEv(k, 1) \cup AccessEv(k, 1, n) \cup UpdateEv(k, 1, n, Toks, {1}) \cup SortEv(k, 1) \cup
    (IF k = "List" THEN ExpandEv(k, 1, n, Toks, {1}) \cup SearchEv(k, 1, Toks, {1}) ELSE {})

ListBinary(w) ==
    LET k == w[1].kind  n == Len(w[1].s) IN
    {e \in UpdateEv(k, 1, n, {}, {3}) : TRUE} \cup
    (IF k = "List"
     THEN {e \in ExpandEv(k, 1, n, {}, {3}) : e.m \in {"InsertValues", "AppendValues"}} \cup
          SearchEv(k, 1, {}, {3}) \cup
          {E("List", "Concatenate", 0, <<a, b>>, "V") : a \in {1}, b \in {1}}
     ELSE {}) \cup
    {E(kk, "MakeFromSequence", 0, <<1>>, "V") : kk \in {"List", "Array"}}

EventsList(w) ==
    CASE Len(w) = 0 -> {E("List", "Make", 0, <<>>, "V")} \cup {E("Array", "Make", 0, <<n>>, "V") : n \in 0..MaxLen}
      [] Len(w) = 1 -> ListUnary(w) \cup {E("GoArray", "New", 0, <<l>>, "V") : l \in Lits} \cup NilArr("V")
      [] Len(w) = 2 /\ w[2].kind = "GoArray" /\ Len(w[2].s) <= MaxLit ->
            {E(kk, "MakeFromArray", 0, <<2>>, "V") : kk \in {"List", "Array"}}
      [] Len(w) = 3 /\ w[2].kind = "GoArray" /\ w[3].kind \in {"List", "Array"} -> ListBinary(w)
      [] OTHER -> {}

----------------------------------------------------------------------------
(* Family "iter" (C17): object 1 is a List whose i-th value is token i-1   *)
(* (so the first value coincides with the zero value), objects 2 and 3 are  *)
(* iterators over it; every move on either iterator interleaved with        *)
(* mutations of the source.                                                 *)

EventsIter(w) ==
    CASE Len(w) = 0 -> {E("List", "Make", 0, <<>>, "V")}
      [] Len(w) = 1 -> {E("List", "AppendValue", 1, <<Len(w[1].s)>>, "")} \cup {E("List", "GetIterator", 1, <<>>, "")}
      [] Len(w) \in {2, 3} ->
            UNION {IterEv(i, Len(w[i].s)) : i \in 2..Len(w)} \cup
            {E("List", "RemoveAll", 1, <<>>, ""), E("List", "RemoveValue", 1, <<1>>, ""),
             E("List", "SetValue", 1, <<1, MaxTok + 1>>, "")} \cup
            (IF Len(w) = 2 THEN {E("List", "GetIterator", 1, <<>>, "")} ELSE {})
      [] OTHER -> {}

----------------------------------------------------------------------------
(* Family "set" (C02): object 1 is a Set with one of three collators;       *)
(* operands as in "list".                                                   *)

SetUnary(w) ==
    LET n == Len(w[1].s) IN
    SeqReadEv("Set", 1) \cup AccessEv("Set", 1, n) \cup SearchEv("Set", 1, Toks, {1}) \cup
    {E("Set", m, 1, <<t>>, "") : m \in {"AddValue", "RemoveValue"}, t \in Toks} \cup
    {E("Set", m, 1, <<1>>, "") : m \in {"AddValues", "RemoveValues"}} \cup
    {E("Set", m, 1, <<>>, "") : m \in {"RemoveAll", "GetCollator"}}

SetBinary(w) ==
    SearchEv("Set", 1, {}, {3}) \cup
    {E("Set", m, 1, <<3>>, "") : m \in {"AddValues", "RemoveValues"}} \cup
    {E("Set", "MakeFromSequence", 0, <<o>>, "V") : o \in {1, 3}} \cup
    {E("Set", "MakeFromArray", 0, <<2>>, "V")} \cup
    {E("Set", m, 0, <<a, b>>, "V") : m \in {"And", "Or", "Sans", "Xor"}, a \in {1}, b \in {1}}

EventsSet(w) ==
    CASE Len(w) = 0 -> {E("Set", "Make", 0, <<>>, "V")} \cup
                       {E("Set", "MakeWithCollator", 0, <<c>>, "V") : c \in {"nat", "rev", "coarse"}}
      [] Len(w) = 1 -> SetUnary(w) \cup {E("GoArray", "New", 0, <<l>>, "V") : l \in Lits} \cup NilArr("V")
      [] Len(w) = 2 /\ w[2].kind = "GoArray" /\ Len(w[2].s) <= MaxLit ->
            {E(kk, "MakeFromArray", 0, <<2>>, "V") : kk \in {"List", "Array"}}
      [] Len(w) = 3 /\ w[2].kind = "GoArray" /\ w[3].kind \in {"List", "Array"} -> SetBinary(w)
      [] OTHER -> {}

----------------------------------------------------------------------------
(* Family "algebra" (C15): objects 1 and 2 are Sets with the same collator, *)
(* grown by AddValue; the four class functions on (1,2), (2,1), (1,1).      *)

EventsAlgebra(w) ==
    CASE Len(w) = 0 -> {E("Set", "MakeWithCollator", 0, <<c>>, "V") : c \in {"nat", "rev", "coarse"}}
      [] Len(w) = 1 -> {E("Set", "AddValue", 1, <<t>>, "") : t \in Toks} \cup
                       {E("Set", "MakeWithCollator", 0, <<w[1].c>>, "V")}
      [] Len(w) = 2 -> {E("Set", "AddValue", 2, <<t>>, "") : t \in Toks} \cup
                       {E("Set", m, 0, <<a, b>>, "V") : m \in {"And", "Or", "Sans", "Xor"},
                                                         a \in {1, 2}, b \in {1, 2}}
      [] OTHER -> {}

----------------------------------------------------------------------------
(* Family "set2" (C02): objects 1 and 2 are Sets whose collators are chosen  *)
(* independently (natural, reversed, coarse), both grown by AddValue; every  *)
(* bulk operation of one taking the other as its operand sequence, in both   *)
(* directions and in every (content, content) combination - an operand that  *)
(* is ordered and duplicate-free under ANOTHER ordering is exactly what a    *)
(* "the operand is already a set" shortcut gets wrong.                       *)

EventsSet2(w) ==
    CASE Len(w) = 0 -> {E("Set", "MakeWithCollator", 0, <<c>>, "V") : c \in {"nat", "rev", "coarse"}}
      [] Len(w) = 1 -> {E("Set", "AddValue", 1, <<t>>, "") : t \in Toks} \cup
                       {E("Set", "MakeWithCollator", 0, <<c>>, "V") : c \in {"nat", "rev", "coarse"}}
      [] Len(w) = 2 -> {E("Set", "AddValue", 2, <<t>>, "") : t \in Toks} \cup
                       {E("Set", "RemoveAll", 2, <<>>, "")} \cup
                       {E("Set", m, a, <<3 - a>>, "") : m \in {"AddValues", "RemoveValues", "ContainsAny", "ContainsAll"},
                                                        a \in {1, 2}} \cup
                       {E("Set", "MakeFromSequence", 0, <<a>>, "V") : a \in {1, 2}}
      [] OTHER -> {}

----------------------------------------------------------------------------
(* Family "stack" (C13).                                                    *)

EventsStack(w) ==
    CASE Len(w) = 0 -> {E("Stack", "Make", 0, <<>>, "V")} \cup
                       {E("Stack", "MakeWithCapacity", 0, <<c>>, "V") : c \in 0..MaxLen} \cup
                       {E("GoArray", "New", 0, <<l>>, "V") : l \in SeqsUpTo({1, 2}, MaxLen) \cup {Pattern(n) : n \in BigLens}} \cup NilArr("V")
      [] Len(w) = 1 /\ w[1].kind = "GoArray" ->
            {E("Stack", "MakeFromArray", 0, <<1>>, "V"), E("List", "MakeFromArray", 0, <<1>>, "V")}
      [] Len(w) = 2 /\ w[2].kind = "List" -> {E("Stack", "MakeFromSequence", 0, <<2>>, "V")}
      [] w[Len(w)].kind = "Stack" /\ Len(w) <= 3 ->
            LET id == Len(w)  n == Len(w[id].s) IN
            SeqReadEv("Stack", id) \cup
            \* small stacks: every token; stacks around the default capacity: one
            \* token and pops only from the full side (keeps the graph linear there)
            (IF n < MaxLen THEN {E("Stack", "AddValue", id, <<t>>, "") : t \in Toks}
             ELSE IF n >= DefaultCap - 1 THEN {E("Stack", "AddValue", id, <<0>>, "")} ELSE {}) \cup
            (IF n <= MaxLen \/ n >= DefaultCap THEN {E("Stack", "RemoveTop", id, <<>>, "")} ELSE {}) \cup
            {E("Stack", m, id, <<>>, "") : m \in {"RemoveAll", "GetCapacity"}}
      [] OTHER -> {}

----------------------------------------------------------------------------
(* Families "catalog" (C03) and "map" (C14): object 1 is the receiver;      *)
(* key sequences are lists made from Go array literals of keys.             *)

\* object 1 is a Go array literal of keys, object 2 the key list made from it;
\* the receiver is the last object once it is of kind k
AssocUnaryAt(k, r) ==
    {E(k, m, r, <<>>, "") : m \in {"AsArray", "GetIterator", "GetSize", "IsEmpty", "GetKeys"}} \cup
    {E(k, "GetValue", r, <<t>>, "") : t \in Toks} \cup
    \* the full mutation graph is explored on the receiver made by Make (object 3);
    \* receivers built by the other constructors are only read
    (IF r # 3 THEN {} ELSE
     {E(k, "RemoveAll", r, <<>>, "")} \cup
     {E(k, "RemoveValue", r, <<t>>, "") : t \in Toks} \cup
     {E(k, "SetValue", r, <<t, v>>, "") : t \in Toks, v \in 0..1} \cup
     (IF k = "Catalog"
      THEN {E(k, m, r, <<>>, "") : m \in {"SortValues", "ReverseValues", "ShuffleValues"}} \cup
           {E(k, "SortValuesWithRanker", r, <<x>>, "") : x \in Rankers} \cup
           (IF Family = "catalogfn" THEN {E("Catalog", "Merge", 0, <<r, r>>, "A")} ELSE {})
      ELSE {}))

\* receivers built by the other constructors: one change each (costly step)
AssocMutOther(k, w) ==
    LET r == Len(w) IN
    IF Family \in {"catalog", "map"} /\ r \in {4, 5} /\ w[r].kind = k /\ w[1].s = <<>>
    THEN {E(k, "SetValue", r, <<t, 1>>, "") : t \in Toks} \cup {E(k, "RemoveValue", r, <<t>>, "") : t \in Toks}
    ELSE {}

AssocBinaryAt(k, r) ==
    {E(k, m, r, <<2>>, "") : m \in {"GetValues", "RemoveValues"}} \cup
    (IF Family = "catalogfn" THEN {E("Catalog", "Extract", 0, <<r, 2>>, "A")} ELSE {})

EventsAssoc(k, w) ==
    CASE Len(w) = 0 -> {E("GoArray", "New", 0, <<l>>, "K") : l \in Lits}
      [] Len(w) = 1 -> {E("List", "MakeFromArray", 0, <<1>>, "K")}
      [] Len(w) = 2 -> {E(k, "Make", 0, <<>>, "A")} \cup
                       (IF w[1].s = <<>> THEN {E("GoArray", "New", 0, <<l>>, "A") : l \in CodeLits} \cup NilArr("A") \cup
                                              {E("GoMap", "New", 0, <<l>>, "") : l \in PairLits} \cup
                                              {E("GoMap", "NewNil", 0, <<>>, "")}
                        ELSE {})
      [] \/ Len(w) = 3 /\ w[3].kind = k
         \/ Len(w) = 4 /\ w[3].kind \in {"GoArray", "GoMap"} /\ w[4].kind = k
         \/ Len(w) = 5 /\ w[3].kind = "GoArray" /\ w[4].kind = "Array" /\ w[5].kind = k ->
            AssocBinaryAt(k, Len(w)) \cup (IF w[1].s = <<>> THEN AssocUnaryAt(k, Len(w)) ELSE {})
      [] Len(w) = 3 /\ w[3].kind = "GoArray" ->
            {E(k, "MakeFromArray", 0, <<3>>, "A"), E("Array", "MakeFromArray", 0, <<3>>, "A")}
      [] Len(w) = 4 /\ w[3].kind = "GoArray" /\ w[4].kind = "Array" -> {E(k, "MakeFromSequence", 0, <<4>>, "A")}
      [] Len(w) = 3 /\ w[3].kind = "GoMap" -> {E(k, "MakeFromMap", 0, <<3>>, "A")}
      [] OTHER -> {}

----------------------------------------------------------------------------
(* Family "merge" (C16): two catalogs grown by SetValue; Merge on every     *)
(* ordered pair including the aliased ones.                                 *)

EventsMerge(w) ==
    CASE Len(w) = 0 -> {E("Catalog", "Make", 0, <<>>, "A")}
      [] Len(w) = 1 -> {E("Catalog", "SetValue", 1, <<t, 0>>, "") : t \in Toks} \cup {E("Catalog", "Make", 0, <<>>, "A")}
      [] Len(w) = 2 -> {E("Catalog", "SetValue", 2, <<t, 1>>, "") : t \in Toks} \cup
                       {E("Catalog", "Merge", 0, <<a, b>>, "A") : a \in {1, 2}, b \in {1, 2}}
      [] OTHER -> {}

\* one change to the result or an operand: nothing else may change (costly)
MergeMut(w) ==
    IF Len(w) # 3 THEN {}
    ELSE UNION {{E("Catalog", "SetValue", i, <<w[i].s[1][1], 2>>, ""),
                 E("Catalog", "RemoveValue", i, <<w[i].s[1][1]>>, "")} : i \in {j \in 1..3 : w[j].s # <<>>}}

----------------------------------------------------------------------------
(* Family "concat" (C16): two lists grown by AppendValue; Concatenate on    *)
(* every ordered pair including the aliased ones; then one change to the    *)
(* result or an operand (purity is World's frame condition).                *)

EventsConcat(w) ==
    CASE Len(w) = 0 -> {E("List", "Make", 0, <<>>, "V")}
      [] Len(w) = 1 -> {E("List", "AppendValue", 1, <<t>>, "") : t \in Toks} \cup {E("List", "Make", 0, <<>>, "V")}
      [] Len(w) = 2 -> {E("List", "AppendValue", 2, <<t>>, "") : t \in Toks} \cup
                       {E("List", "Concatenate", 0, <<a, b>>, "V") : a \in {1, 2}, b \in {1, 2}}
      [] OTHER -> {}

ConcatMut(w) ==
    IF Len(w) # 3 THEN {}
    ELSE {E("List", "SetValue", i, <<1, MaxTok + 1>>, "") : i \in {j \in 1..3 : w[j].s # <<>>}} \cup
         {E("List", "AppendValue", i, <<MaxTok + 1>>, "") : i \in 1..3}

----------------------------------------------------------------------------
(* Families "sort" and "sortA" (C09): the Sortable methods of List, Array   *)
(* and Catalog interleaved with the mutations that a stale book-keeping of  *)
(* "already sorted" would have to notice.  The driver replays every *pair*  *)
(* of consecutive edges (history matters: SortValuesWithRanker followed by  *)
(* SortValues, sort - remove - sort, ...).                                  *)

SortLits == {<<>>, <<1>>, <<2, 0, 1>>, <<1, 1, 0>>}

EventsSort(w) ==
    CASE Len(w) = 0 -> {E("List", "Make", 0, <<>>, "V")} \cup {E("GoArray", "New", 0, <<l>>, "V") : l \in SortLits}
      [] Len(w) = 1 /\ w[1].kind = "List" ->
            SortEv("List", 1) \cup {E("List", "GetSize", 1, <<>>, "")} \cup
            {E("List", "AppendValue", 1, <<t>>, "") : t \in Toks} \cup
            {E("List", "SetValue", 1, <<1, t>>, "") : t \in Toks} \cup
            {E("List", "RemoveValue", 1, <<i>>, "") : i \in {1, -1}}
      [] Len(w) = 1 -> {E("Array", "MakeFromArray", 0, <<1>>, "V")}
      [] Len(w) = 2 ->
            SortEv("Array", 2) \cup {E("Array", "GetSize", 2, <<>>, "")} \cup
            {E("Array", "SetValue", 2, <<1, t>>, "") : t \in Toks}
      [] OTHER -> {}

EventsSortA(w) ==
    CASE Len(w) = 0 -> {E("Catalog", "Make", 0, <<>>, "A")}
      [] Len(w) = 1 ->
            SortEv("Catalog", 1) \cup {E("Catalog", "GetSize", 1, <<>>, "")} \cup
            {E("Catalog", "SetValue", 1, <<t, v>>, "") : t \in Toks, v \in 0..1} \cup
            {E("Catalog", "RemoveValue", 1, <<t>>, "") : t \in Toks}
      [] OTHER -> {}

----------------------------------------------------------------------------
(* Family "queueseq": the quiescent fragment of the queue (C17/C18/C20).    *)

QueueEvAt(w, id) ==
    LET o == w[id]  n == Len(o.s) IN
    SeqReadEv("Queue", id) \cup {E("Queue", "GetCapacity", id, <<>>, "")} \cup
    (IF ~o.closed /\ n < o.cap /\ n < MaxLen THEN {E("Queue", "AddValue", id, <<t>>, "") : t \in Toks}
     ELSE IF ~o.closed /\ n < o.cap /\ n >= DefaultCap - 1 THEN {E("Queue", "AddValue", id, <<0>>, "")} ELSE {}) \cup
    (IF (o.s # <<>> /\ (n <= MaxLen \/ n >= DefaultCap)) \/ (o.s = <<>> /\ o.closed)
     THEN {E("Queue", "RemoveHead", id, <<>>, "")} ELSE {}) \cup
    (IF ~o.closed THEN {E("Queue", "CloseQueue", id, <<>>, ""), E("Queue", "RemoveAll", id, <<>>, "")} ELSE {})

EventsQueueSeq(w) ==
    CASE Len(w) = 0 -> {E("Queue", "Make", 0, <<>>, "V")} \cup
                       {E("Queue", "MakeWithCapacity", 0, <<c>>, "V") : c \in 0..MaxLen} \cup
                       {E("GoArray", "New", 0, <<l>>, "V") : l \in SeqsUpTo({1, 2}, MaxLit) \cup {Pattern(n) : n \in BigLens}}
      [] Len(w) = 1 /\ w[1].kind = "GoArray" ->
            {E("Queue", "MakeFromArray", 0, <<1>>, "V"), E("List", "MakeFromArray", 0, <<1>>, "V")}
      [] Len(w) = 2 /\ w[2].kind = "List" -> {E("Queue", "MakeFromSequence", 0, <<2>>, "V")}
      [] w[Len(w)].kind = "Queue" /\ Len(w) <= 3 -> QueueEvAt(w, Len(w))
      [] OTHER -> {}

----------------------------------------------------------------------------
(* Family "alias" (C18): a caller-owned Go array or map is passed to every  *)
(* constructor; every view / derived sequence is taken from the result;     *)
(* then each of the objects is changed in turn.  World.tla's frame          *)
(* condition (every other object unchanged) is what detects shared storage. *)

Fresh == MaxTok + 1
\* events that consume exploration fuel are marked by ec = "$" .. no: by a wrapper set
Costly(S) == {[e EXCEPT !.ec = "$" \o e.ec] : e \in S}
FreshOf(cls) == IF cls = "A" THEN ACode(Fresh, 1) ELSE Fresh

\* one-step changes of object id whose elements are of class cls
MutEv(w, id, cls) ==
    LET k == w[id].kind  n == Len(w[id].s)  F == FreshOf(cls) IN
    CASE k = "List" -> {E(k, "SetValue", id, <<1, F>>, ""), E(k, "InsertValue", id, <<0, F>>, "")} \cup
                       {E(k, "AppendValue", id, <<F>>, "")} \cup
                       {E(k, m, id, <<>>, "") : m \in (IF cls = "A" THEN {"ReverseValues"} ELSE {"ReverseValues", "SortValues"})} \cup
                       {E(k, "RemoveValue", id, <<1>>, "")}
      [] k = "Array" -> {E(k, "SetValue", id, <<-1, F>>, "")} \cup
                        {E(k, m, id, <<>>, "") : m \in (IF cls = "A" THEN {"ReverseValues"} ELSE {"ReverseValues", "SortValues"})}
      [] k = "Seq" -> {E(k, "SetValue", id, <<1, F>>, "")}
      [] k = "Set" -> {E(k, "AddValue", id, <<F>>, "")} \cup {E(k, "RemoveAll", id, <<>>, "")} \cup
                      (IF n > 0 THEN {E(k, "RemoveValue", id, <<w[id].s[1]>>, "")} ELSE {})
      [] k = "Stack" -> (IF n < w[id].cap THEN {E(k, "AddValue", id, <<F>>, "")} ELSE {}) \cup
                        {E(k, "RemoveTop", id, <<>>, "")}
      [] k = "Queue" -> (IF n < w[id].cap THEN {E(k, "AddValue", id, <<F>>, "")} ELSE {}) \cup
                        (IF n > 0 THEN {E(k, "RemoveHead", id, <<>>, "")} ELSE {})
      [] k = "GoArray" -> {E(k, "Poke", id, <<p, F>>, "") : p \in 1..n}
      [] k \in {"Catalog", "Map"} ->
            {E(k, "SetValue", id, <<Fresh, 1>>, "")} \cup {E(k, "RemoveAll", id, <<>>, "")} \cup
            (IF n > 0 THEN {E(k, "SetValue", id, <<w[id].s[1][1], 1 - w[id].s[1][2]>>, "")} \cup
                           {E(k, "RemoveValue", id, <<w[id].s[1][1]>>, "")} ELSE {})
      [] k = "GoMap" -> {E(k, "Poke", id, <<Fresh, 1>>, "")} \cup
                        (IF n > 0 THEN {E(k, "Poke", id, <<w[id].s[1][1], 1 - w[id].s[1][2]>>, "")} \cup
                                       {E(k, "Delete", id, <<w[id].s[1][1]>>, "")} ELSE {})
      [] OTHER -> {}

ValueKinds == {"List", "Array", "Set", "Stack", "Queue"}

DeriveEv(w, id, cls) ==
    LET k == w[id].kind  n == Len(w[id].s) IN
    {E(k, m, id, <<>>, "") : m \in {"AsArray", "GetIterator"}} \cup
    (IF k \in {"List", "Array", "Set"} /\ n > 0
     THEN {E(k, "GetValues", id, <<1, -1>>, ""), E(k, "GetValues", id, <<1, 1>>, "")} ELSE {}) \cup
    (IF k = "List" /\ n > 0 THEN {E(k, "RemoveValues", id, <<1, -1>>, "")} ELSE {}) \cup
    (IF k \in ValueKinds
     THEN {E(kk, "MakeFromSequence", 0, <<id>>, cls) : kk \in (IF cls = "A" THEN {"List", "Array"} ELSE ValueKinds)}
     ELSE {}) \cup
    (IF k \in {"Catalog", "Map"}
     THEN {E(k, "GetKeys", id, <<>>, "")} \cup
          \* a Map enumerates in an unspecified order: only order-insensitive consumers
          {E(kk, "MakeFromSequence", 0, <<id>>, "A") : kk \in (IF k = "Map" THEN {"Map"} ELSE {"Catalog", "Map", "List", "Array"})}
     ELSE {})

\* "alias": element class V throughout
EvSetsAlias(w) ==
    CASE Len(w) = 0 -> << {E("GoArray", "New", 0, <<l>>, "V") : l \in {<<>>, <<1>>, <<2, 0, 1>>}} >>
      [] Len(w) = 1 -> << {E(kk, "MakeFromArray", 0, <<1>>, "V") : kk \in ValueKinds} >>
      [] Len(w) = 2 -> << Costly(MutEv(w, 1, "V")), Costly(MutEv(w, 2, "V")), DeriveEv(w, 2, "V") >>
      [] Len(w) = 3 -> << Costly(MutEv(w, 1, "V")), Costly(MutEv(w, 2, "V")), Costly(MutEv(w, 3, "V")) >>
      [] OTHER -> << >>

\* "aliasA": maps, catalogs and sequences of associations; a Seq holds keys
ClsA(w, id) == IF w[id].kind = "Seq" THEN "K" ELSE "A"
EvSetsAliasA(w) ==
    CASE Len(w) = 0 -> << {E("GoMap", "New", 0, <<l>>, "") : l \in {<<>>, <<<<1, 1>>>>, <<<<2, 0>>, <<0, 1>>>>}},
                          {E("GoArray", "New", 0, <<l>>, "A") : l \in {<<ACode(1, 1)>>, <<ACode(2, 0), ACode(0, 1)>>}} >>
      [] Len(w) = 1 /\ w[1].kind = "GoMap" -> << {E(kk, "MakeFromMap", 0, <<1>>, "A") : kk \in {"Catalog", "Map"}} >>
      [] Len(w) = 1 -> << {E(kk, "MakeFromArray", 0, <<1>>, "A") : kk \in {"Catalog", "Map", "List", "Array"}} >>
      [] Len(w) = 2 -> << Costly(MutEv(w, 1, "A")), Costly(MutEv(w, 2, "A")), DeriveEv(w, 2, "A") >>
      [] Len(w) = 3 -> << Costly(MutEv(w, 1, "A")), Costly(MutEv(w, 2, "A")), Costly(MutEv(w, 3, ClsA(w, 3))) >>
      [] OTHER -> << >>

----------------------------------------------------------------------------

\* Family "extract" (C16): object 1 is a catalog grown by SetValue / RemoveValue,
\* object 3 a key list made from a Go array literal (object 2); Extract for every
\* (catalog, keys); then the catalog is changed (costly steps) and extracted from
\* again: whatever an earlier Extract left behind must not show
EventsExtract(w) ==
    CASE Len(w) = 0 -> {E("Catalog", "Make", 0, <<>>, "A")}
      [] Len(w) = 1 -> {E("Catalog", "SetValue", 1, <<t, v>>, "") : t \in Toks, v \in 0..1} \cup
                       {E("Catalog", "RemoveValue", 1, <<t>>, "") : t \in Toks} \cup
                       {E("GoArray", "New", 0, <<l>>, "K") : l \in Lits}
      [] Len(w) = 2 -> {E("List", "MakeFromArray", 0, <<2>>, "K")}
      [] Len(w) \in {3, 4} -> {E("Catalog", "Extract", 0, <<1, 3>>, "A")}
      [] OTHER -> {}
\* Families "keysC" / "keysM" (C03, C14): the bulk operations taking a key
\* sequence on a grown catalog / map, for every (content, keys) combination
EventsKeys(k, w) ==
    CASE Len(w) = 0 -> {E(k, "Make", 0, <<>>, "A")}
      [] Len(w) = 1 -> {E(k, "SetValue", 1, <<t, v>>, "") : t \in Toks, v \in 0..1} \cup
                       {E(k, "RemoveValue", 1, <<t>>, "") : t \in Toks} \cup
                       {E("GoArray", "New", 0, <<l>>, "K") : l \in Lits}
      [] Len(w) = 2 -> {E("List", "MakeFromArray", 0, <<2>>, "K")}
      [] Len(w) = 3 -> {E(k, m, 1, <<3>>, "") : m \in {"GetValues", "RemoveValues"}}
      [] OTHER -> {}
ExtractMut(w) ==
    IF Len(w) # 4 THEN {}
    ELSE {E("Catalog", "SetValue", 1, <<t, 1>>, "") : t \in Toks} \cup
         {E("Catalog", "RemoveValue", 1, <<t>>, "") : t \in Toks}

\* Family "iterK" (C17): an iterator over an Array, List, Set, Stack or Queue: every
\* move, and one change of the source (costly) which the iterator must not see
EventsIterK(w) ==
    CASE Len(w) = 0 -> {E("GoArray", "New", 0, <<l>>, "V") : l \in {<<>>, <<1>>, <<0, 1, 2>>}}
      [] Len(w) = 1 -> {E(kk, "MakeFromArray", 0, <<1>>, "V") : kk \in {"Array", "List", "Set", "Stack", "Queue"}}
      [] Len(w) = 2 -> {E(w[2].kind, "GetIterator", 2, <<>>, "")}
      [] Len(w) = 3 -> IterEv(3, Len(w[3].s))
      [] OTHER -> {}

\* A sequence of event sets (each set homogeneous in the types of its
\* arguments: TLC cannot compare an integer token with a pair token).
EvSets(w) ==
    CASE Family = "list"     -> << EventsList(w) >>
      [] Family = "iter"     -> << EventsIter(w) >>
      [] Family = "set"      -> << EventsSet(w) >>
      [] Family = "algebra"  -> << EventsAlgebra(w) >>
      [] Family = "set2"     -> << EventsSet2(w) >>
      [] Family = "stack"    -> << EventsStack(w) >>
      [] Family \in {"catalog", "catalogfn"} -> << EventsAssoc("Catalog", w), Costly(AssocMutOther("Catalog", w)) >>
      [] Family = "concat"   -> << EventsConcat(w), Costly(ConcatMut(w)) >>
      [] Family = "map"      -> << EventsAssoc("Map", w), Costly(AssocMutOther("Map", w)) >>
      [] Family = "merge"    -> << EventsMerge(w), Costly(MergeMut(w)) >>
      [] Family = "queueseq" -> << EventsQueueSeq(w) >>
      [] Family = "extract"  -> << EventsExtract(w), Costly(ExtractMut(w)) >>
      [] Family = "keysC"    -> << EventsKeys("Catalog", w) >>
      [] Family = "keysM"    -> << EventsKeys("Map", w) >>
      [] Family = "iterK"    -> << EventsIterK(w),
                                   Costly(IF Len(w) = 3
                                          THEN MutEv(w, 2, "V") \cup
                                               \* re-ordering in place: the iterator already taken must not move,
                                               \* one taken afterwards (the projection takes one) must follow
                                               (IF w[2].kind \in {"List", "Array"}
                                                THEN {E(w[2].kind, "SortValuesWithRanker", 2, <<"rev">>, ""),
                                                      E(w[2].kind, "ReverseValues", 2, <<>>, "")} ELSE {})
                                          ELSE {}) >>
      [] Family = "sort"     -> << EventsSort(w) >>
      [] Family = "sortA"    -> << EventsSortA(w) >>
      [] Family = "alias"    -> EvSetsAlias(w)
      [] Family = "aliasA"   -> EvSetsAliasA(w)

Init == world = <<>> /\ fuel = MaxFuel

IsCostly(e) == e.ec \in {"$", "$V", "$K", "$A"}
Plain(e) == IF IsCostly(e) THEN [e EXCEPT !.ec = IF e.ec = "$" THEN "" ELSE IF e.ec = "$V" THEN "V" ELSE IF e.ec = "$K" THEN "K" ELSE "A"] ELSE e

Next ==
    /\ Small(world)
    /\ \E i \in DOMAIN EvSets(world) : \E ce \in EvSets(world)[i] :
         LET e == Plain(ce) IN
         /\ IsCostly(ce) => fuel > 0
         /\ fuel' = IF IsCostly(ce) THEN fuel - 1 ELSE fuel
         /\ \E o \in Gen(world, e) :
            /\ world' = o.w
            /\ PrintT(ToJson([pre |-> world, e |-> e, post |-> o.w, p |-> o.p,
                              nd |-> (Relational(e) \/ Cardinality(Gen(world, e)) > 1)]))

Spec == Init /\ [][Next]_<<world, fuel>>

----------------------------------------------------------------------------
(* Properties of the model itself *)

TypeOK == WorldOK(world)

\* every representative outcome is an accepted outcome; a panic changes nothing
GenSound ==
    \A i \in DOMAIN EvSets(world) : \A ce \in EvSets(world)[i] : LET e == Plain(ce) IN \A o \in Gen(world, e) :
        /\ Accepts(world, e, o)
        /\ o.p => o.w = world

=============================================================================
