------------------------------ MODULE MCWorld ------------------------------
(***************************************************************************)
(* Model-checking wrapper around World.tla: TLC explores the state graph   *)
(* of the world for one operation family under small constants and exports *)
(* every edge (pre-world, event, post-world) as one JSON line.  The driver  *)
(* turns each edge into a script (a real history from the empty world to    *)
(* the edge's pre-state, then the edge) which the harness executes on the   *)
(* real library; the recorded traces are validated by TraceWorld.           *)
(*                                                                          *)
(* Invariants checked on the model itself:                                  *)
(*   TypeOK       - every reachable world satisfies the object invariants   *)
(*   (action)     - a panicking outcome leaves the world unchanged, every   *)
(*                  representative outcome is accepted by Accepts           *)
(***************************************************************************)
EXTENDS World, Json

CONSTANTS Family,      \* operation family (string)
          MaxTok,      \* element tokens 0..MaxTok
          MaxLen,      \* receivers are explored up to this length
          MaxLit       \* operand literals up to this length

VARIABLES world

Toks == 0..MaxTok
SeqsUpTo(S, n) == UNION {[1..k -> S] : k \in 0..n}
Lits == SeqsUpTo(Toks, MaxLit)
Idx(n) == (-(n + 1))..(n + 1)       \* every valid index, zero, first invalid on both sides
Slots(n) == 0..(n + 1)
Pairs == {<<k, v>> : k \in Toks, v \in 0..1}
PairLits == SeqsUpTo(Pairs, MaxLit)

E(k, m, self, args, ec) == [k |-> k, m |-> m, self |-> self, args |-> args, ec |-> ec]

Small(w) == \A i \in 1..Len(w) : Len(w[i].s) <= MaxLen

----------------------------------------------------------------------------
(* Method events on receiver id with n elements; operands from Ops (ids).   *)

SeqReadEv(k, id) == {E(k, m, id, <<>>, "") : m \in {"AsArray", "GetIterator", "GetSize", "IsEmpty"}}

AccessEv(k, id, n) ==
    {E(k, "GetValue", id, <<i>>, "") : i \in Idx(n)} \cup
    {E(k, "GetValues", id, <<i, j>>, "") : i \in Idx(n), j \in Idx(n)}

UpdateEv(k, id, n, T, Ops) ==
    {E(k, "SetValue", id, <<i, t>>, "") : i \in Idx(n), t \in T} \cup
    {E(k, "SetValues", id, <<i, o>>, "") : i \in Idx(n), o \in Ops}

SortEv(k, id) ==
    {E(k, m, id, <<>>, "") : m \in {"SortValues", "ReverseValues", "ShuffleValues"}} \cup
    {E(k, "SortValuesWithRanker", id, <<r>>, "") : r \in Rankers}

ExpandEv(k, id, n, T, Ops) ==
    {E(k, "InsertValue", id, <<s, t>>, "") : s \in Slots(n), t \in T} \cup
    {E(k, "InsertValues", id, <<s, o>>, "") : s \in Slots(n), o \in Ops} \cup
    {E(k, "AppendValue", id, <<t>>, "") : t \in T} \cup
    {E(k, "AppendValues", id, <<o>>, "") : o \in Ops} \cup
    {E(k, "RemoveValue", id, <<i>>, "") : i \in Idx(n)} \cup
    {E(k, "RemoveValues", id, <<i, j>>, "") : i \in Idx(n), j \in Idx(n)} \cup
    {E(k, "RemoveAll", id, <<>>, "")}

SearchEv(k, id, T, Ops) ==
    {E(k, m, id, <<t>>, "") : m \in {"GetIndex", "ContainsValue"}, t \in T} \cup
    {E(k, m, id, <<o>>, "") : m \in {"ContainsAny", "ContainsAll"}, o \in Ops}

IterEv(id, n) ==
    {E("Iter", m, id, <<>>, "") : m \in {"HasNext", "HasPrevious", "GetNext", "GetPrevious", "ToStart",
                                          "ToEnd", "GetSlot", "GetSize", "IsEmpty"}} \cup
    {E("Iter", "ToSlot", id, <<j>>, "") : j \in (-(n + 2))..(n + 2)}

----------------------------------------------------------------------------
(* Family "list" (C01): object 1 is the receiver (List or Array); an        *)
(* operand is made from a Go array literal (objects 2 and 3); bulk          *)
(* operations take the operand or the receiver itself.                      *)

ListUnary(w) ==
    LET k == w[1].kind  n == Len(w[1].s) IN
    SeqReadEv(k, 1) \cup AccessEv(k, 1, n) \cup UpdateEv(k, 1, n, Toks, {1}) \cup SortEv(k, 1) \cup
    (IF k = "List" THEN ExpandEv(k, 1, n, Toks, {1}) \cup SearchEv(k, 1, Toks, {1}) ELSE {})

ListBinary(w) ==
    LET k == w[1].kind  n == Len(w[1].s) IN
    {e \in UpdateEv(k, 1, n, {}, {3}) : TRUE} \cup
    (IF k = "List"
     THEN {e \in ExpandEv(k, 1, n, {}, {3}) : e.m \in {"InsertValues", "AppendValues"}} \cup
          SearchEv(k, 1, {}, {3}) \cup
          {E("List", "Concatenate", 0, <<a, b>>, "V") : a \in {1}, b \in {1}}
     ELSE {}) \cup
    {E(kk, "MakeFromSequence", 0, <<1>>, "V") : kk \in {"List", "Array"}}

EventsList(w) ==
    CASE Len(w) = 0 -> {E("List", "Make", 0, <<>>, "V")} \cup {E("Array", "Make", 0, <<n>>, "V") : n \in 0..MaxLen}
      [] Len(w) = 1 -> ListUnary(w) \cup {E("GoArray", "New", 0, <<l>>, "V") : l \in Lits}
      [] Len(w) = 2 /\ w[2].kind = "GoArray" /\ Len(w[2].s) <= MaxLit ->
            {E(kk, "MakeFromArray", 0, <<2>>, "V") : kk \in {"List", "Array"}}
      [] Len(w) = 3 /\ w[2].kind = "GoArray" /\ w[3].kind \in {"List", "Array"} -> ListBinary(w)
      [] OTHER -> {}

----------------------------------------------------------------------------
(* Family "iter" (C17): object 1 is a List, object 2.. iterators over it;   *)
(* moves on two iterators interleaved with mutations of the source.         *)

EventsIter(w) ==
    CASE Len(w) = 0 -> {E("List", "Make", 0, <<>>, "V")}
      [] Len(w) = 1 -> {E("List", "AppendValue", 1, <<t>>, "") : t \in Toks} \cup {E("List", "GetIterator", 1, <<>>, "")}
      [] Len(w) \in {2, 3} ->
            UNION {IterEv(i, Len(w[i].s)) : i \in 2..Len(w)} \cup
            {E("List", "AppendValue", 1, <<t>>, "") : t \in {0}} \cup
            {E("List", m, 1, <<>>, "") : m \in {"RemoveAll", "ReverseValues"}} \cup
            {E("List", "RemoveValue", 1, <<1>>, ""), E("List", "SetValue", 1, <<1, MaxTok>>, "")} \cup
            (IF Len(w) = 2 THEN {E("List", "GetIterator", 1, <<>>, "")} ELSE {})
      [] OTHER -> {}

----------------------------------------------------------------------------
(* Family "set" (C02): object 1 is a Set with one of three collators;       *)
(* operands as in "list".                                                   *)

SetUnary(w) ==
    LET n == Len(w[1].s) IN
    SeqReadEv("Set", 1) \cup AccessEv("Set", 1, n) \cup SearchEv("Set", 1, Toks, {1}) \cup
    {E("Set", m, 1, <<t>>, "") : m \in {"AddValue", "RemoveValue"}, t \in Toks} \cup
    {E("Set", m, 1, <<1>>, "") : m \in {"AddValues", "RemoveValues"}} \cup
    {E("Set", m, 1, <<>>, "") : m \in {"RemoveAll", "GetCollator"}}

SetBinary(w) ==
    SearchEv("Set", 1, {}, {3}) \cup
    {E("Set", m, 1, <<3>>, "") : m \in {"AddValues", "RemoveValues"}} \cup
    {E("Set", "MakeFromSequence", 0, <<o>>, "V") : o \in {1, 3}} \cup
    {E("Set", "MakeFromArray", 0, <<2>>, "V")} \cup
    {E("Set", m, 0, <<a, b>>, "V") : m \in {"And", "Or", "Sans", "Xor"}, a \in {1}, b \in {1}}

EventsSet(w) ==
    CASE Len(w) = 0 -> {E("Set", "Make", 0, <<>>, "V")} \cup
                       {E("Set", "MakeWithCollator", 0, <<c>>, "V") : c \in {"nat", "rev", "coarse"}}
      [] Len(w) = 1 -> SetUnary(w) \cup {E("GoArray", "New", 0, <<l>>, "V") : l \in Lits}
      [] Len(w) = 2 /\ w[2].kind = "GoArray" /\ Len(w[2].s) <= MaxLit ->
            {E(kk, "MakeFromArray", 0, <<2>>, "V") : kk \in {"List", "Array"}}
      [] Len(w) = 3 /\ w[2].kind = "GoArray" /\ w[3].kind \in {"List", "Array"} -> SetBinary(w)
      [] OTHER -> {}

----------------------------------------------------------------------------
(* Family "algebra" (C15): objects 1 and 2 are Sets with the same collator, *)
(* grown by AddValue; the four class functions on (1,2), (2,1), (1,1).      *)

EventsAlgebra(w) ==
    CASE Len(w) = 0 -> {E("Set", "MakeWithCollator", 0, <<c>>, "V") : c \in {"nat", "rev", "coarse"}}
      [] Len(w) = 1 -> {E("Set", "AddValue", 1, <<t>>, "") : t \in Toks} \cup
                       {E("Set", "MakeWithCollator", 0, <<w[1].c>>, "V")}
      [] Len(w) = 2 -> {E("Set", "AddValue", 2, <<t>>, "") : t \in Toks} \cup
                       {E("Set", m, 0, <<a, b>>, "V") : m \in {"And", "Or", "Sans", "Xor"},
                                                         a \in {1, 2}, b \in {1, 2}}
      [] OTHER -> {}

----------------------------------------------------------------------------
(* Family "stack" (C13).                                                    *)

EventsStack(w) ==
    CASE Len(w) = 0 -> {E("Stack", "Make", 0, <<>>, "V")} \cup
                       {E("Stack", "MakeWithCapacity", 0, <<c>>, "V") : c \in 0..MaxLen} \cup
                       {E("GoArray", "New", 0, <<l>>, "V") : l \in SeqsUpTo({1, 2}, MaxLen)}
      [] Len(w) = 1 /\ w[1].kind = "GoArray" ->
            {E("Stack", "MakeFromArray", 0, <<1>>, "V"), E("List", "MakeFromArray", 0, <<1>>, "V")}
      [] Len(w) = 2 /\ w[2].kind = "List" -> {E("Stack", "MakeFromSequence", 0, <<2>>, "V")}
      [] w[Len(w)].kind = "Stack" /\ Len(w) <= 3 ->
            LET id == Len(w) IN
            SeqReadEv("Stack", id) \cup
            {E("Stack", "AddValue", id, <<t>>, "") : t \in Toks} \cup
            {E("Stack", m, id, <<>>, "") : m \in {"RemoveTop", "RemoveAll", "GetCapacity"}}
      [] OTHER -> {}

----------------------------------------------------------------------------
(* Families "catalog" (C03) and "map" (C14): object 1 is the receiver;      *)
(* key sequences are lists made from Go array literals of keys.             *)

AssocUnary(k, w) ==
    {E(k, m, 1, <<>>, "") : m \in {"AsArray", "GetIterator", "GetSize", "IsEmpty", "GetKeys", "RemoveAll"}} \cup
    {E(k, m, 1, <<t>>, "") : m \in {"GetValue", "RemoveValue"}, t \in Toks} \cup
    {E(k, "SetValue", 1, <<t, v>>, "") : t \in Toks, v \in 0..1} \cup
    (IF k = "Catalog"
     THEN {E(k, m, 1, <<>>, "") : m \in {"SortValues", "ReverseValues", "ShuffleValues"}} \cup
          {E(k, "SortValuesWithRanker", 1, <<r>>, "") : r \in Rankers}
     ELSE {})

AssocBinary(k, w) ==
    {E(k, m, 1, <<3>>, "") : m \in {"GetValues", "RemoveValues"}} \cup
    (IF k = "Catalog" THEN {E("Catalog", "Extract", 0, <<1, 3>>, "A")} ELSE {})

EventsAssoc(k, w) ==
    CASE Len(w) = 0 -> {E(k, "Make", 0, <<>>, "A")} \cup
                       {E("GoArray", "New", 0, <<l>>, "A") : l \in PairLits} \cup
                       {E("GoMap", "New", 0, <<l>>, "") : l \in PairLits}
      [] Len(w) = 1 /\ w[1].kind = "GoArray" ->
            {E(k, "MakeFromArray", 0, <<1>>, "A"), E("Array", "MakeFromArray", 0, <<1>>, "A")}
      [] Len(w) = 2 /\ w[1].kind = "GoArray" /\ w[2].kind = "Array" -> {E(k, "MakeFromSequence", 0, <<2>>, "A")}
      [] Len(w) = 1 /\ w[1].kind = "GoMap" -> {E(k, "MakeFromMap", 0, <<1>>, "A")}
      [] Len(w) = 1 -> AssocUnary(k, w) \cup {E("GoArray", "New", 0, <<l>>, "K") : l \in Lits} \cup
                       (IF k = "Catalog" THEN {E("Catalog", "Merge", 0, <<1, 1>>, "A")} ELSE {})
      [] Len(w) = 2 /\ w[1].kind = k /\ w[2].kind = "GoArray" /\ Len(w[2].s) <= MaxLit ->
            {E("List", "MakeFromArray", 0, <<2>>, "K")}
      [] Len(w) = 3 /\ w[1].kind = k /\ w[3].kind = "List" -> AssocBinary(k, w)
      [] OTHER -> {}

----------------------------------------------------------------------------
(* Family "merge" (C16): two catalogs grown by SetValue; Merge on every     *)
(* ordered pair including the aliased ones.                                 *)

EventsMerge(w) ==
    CASE Len(w) = 0 -> {E("Catalog", "Make", 0, <<>>, "A")}
      [] Len(w) = 1 -> {E("Catalog", "SetValue", 1, <<t, 0>>, "") : t \in Toks} \cup {E("Catalog", "Make", 0, <<>>, "A")}
      [] Len(w) = 2 -> {E("Catalog", "SetValue", 2, <<t, 1>>, "") : t \in Toks} \cup
                       {E("Catalog", "Merge", 0, <<a, b>>, "A") : a \in {1, 2}, b \in {1, 2}}
      [] OTHER -> {}

----------------------------------------------------------------------------
(* Family "queueseq": the quiescent fragment of the queue (C17/C18/C20).    *)

EventsQueueSeq(w) ==
    CASE Len(w) = 0 -> {E("Queue", "Make", 0, <<>>, "V")} \cup
                       {E("Queue", "MakeWithCapacity", 0, <<c>>, "V") : c \in 0..MaxLen}
      [] Len(w) = 1 ->
            LET o == w[1] IN
            SeqReadEv("Queue", 1) \cup {E("Queue", "GetCapacity", 1, <<>>, "")} \cup
            (IF ~o.closed /\ Len(o.s) < o.cap /\ Len(o.s) < MaxLen
             THEN {E("Queue", "AddValue", 1, <<t>>, "") : t \in Toks} ELSE {}) \cup
            (IF o.s # <<>> \/ o.closed THEN {E("Queue", "RemoveHead", 1, <<>>, "")} ELSE {}) \cup
            (IF ~o.closed THEN {E("Queue", "CloseQueue", 1, <<>>, ""), E("Queue", "RemoveAll", 1, <<>>, "")} ELSE {})
      [] OTHER -> {}

----------------------------------------------------------------------------

Events(w) ==
    CASE Family = "list"     -> EventsList(w)
      [] Family = "iter"     -> EventsIter(w)
      [] Family = "set"      -> EventsSet(w)
      [] Family = "algebra"  -> EventsAlgebra(w)
      [] Family = "stack"    -> EventsStack(w)
      [] Family = "catalog"  -> EventsAssoc("Catalog", w)
      [] Family = "map"      -> EventsAssoc("Map", w)
      [] Family = "merge"    -> EventsMerge(w)
      [] Family = "queueseq" -> EventsQueueSeq(w)

Init == world = <<>>

Next ==
    /\ Small(world)
    /\ \E e \in Events(world) :
         \E o \in Gen(world, e) :
            /\ world' = o.w
            /\ PrintT(ToJson([pre |-> world, e |-> e, post |-> o.w, p |-> o.p,
                              nd |-> (Relational(e) \/ Cardinality(Gen(world, e)) > 1)]))

Spec == Init /\ [][Next]_world

----------------------------------------------------------------------------
(* Properties of the model itself *)

TypeOK == WorldOK(world)

\* every representative outcome is an accepted outcome; a panic changes nothing
GenSound ==
    \A e \in Events(world) : \A o \in Gen(world, e) :
        /\ Accepts(world, e, o)
        /\ o.p => o.w = world

=============================================================================
