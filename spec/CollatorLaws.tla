---------------------------- MODULE CollatorLaws ----------------------------
(***************************************************************************)
(* C07 / C08: RankValues is a total preorder with the documented order,     *)
(* CompareValues is structural equality and agrees with ranking - as laws   *)
(* over observation tables recorded from the real collator.                 *)
(*                                                                          *)
(* MODE = "gen": TLC generates the structural universe (every sequence of   *)
(*   length 0..MaxLen and every map of up to MaxLen entries over the leaf   *)
(*   tokens, nested once) as JSON descriptors for the harness to            *)
(*   concretise in every container kind and leaf type.                      *)
(* MODE = "check": the file (env TRACE) holds one table per line:           *)
(*     [name, mode, vals, rank, eq]                                         *)
(*   vals[i] = [d |-> descriptor, pin |-> BOOLEAN]; every value of a table  *)
(*   has the same type; rank[i][j] = RankValues(A_i, B_j) as 1/2/3 (0: the  *)
(*   call panicked) where A_i and B_j are two *independently built* copies  *)
(*   (maps filled in opposite orders); eq[i][j] = CompareValues(A_i, B_j)   *)
(*   as 1 (true) / 0 (false) / 2 (panicked).                                *)
(*                                                                          *)
(* Descriptors:  [k |-> "leaf", c |-> class]   natural order = class order  *)
(*               [k |-> "nil"]                 before every defined value   *)
(*               [k |-> "seq", es |-> <<d...>>]  lexicographic, prefix first*)
(*               [k |-> "map", ps |-> <<<<dk, dv>>...>>]  over sorted keys, *)
(*                                 key then value, fewer associations first *)
(***************************************************************************)
EXTENDS Integers, Sequences, FiniteSets, Json, IOUtils, TLC

CONSTANTS MODE, MaxLen, NLeaf

LT == 1
EQ == 2
GT == 3
Mirror(r) == IF r = 0 THEN 0 ELSE 4 - r
CmpInt(a, b) == IF a < b THEN LT ELSE IF a > b THEN GT ELSE EQ

----------------------------------------------------------------------------
(* Reference semantics (C07: "the order is the natural one ...") *)

RECURSIVE Ref(_, _)
RECURSIVE LexRef(_, _)
RECURSIVE InsKey(_, _)

LexRef(s, t) ==                       \* lexicographic, a proper prefix first
    IF s = <<>> THEN (IF t = <<>> THEN EQ ELSE LT)
    ELSE IF t = <<>> THEN GT
    ELSE LET r == Ref(Head(s), Head(t)) IN IF r # EQ THEN r ELSE LexRef(Tail(s), Tail(t))

\* associations sorted by key
InsKey(ps, p) == IF ps = <<>> THEN <<p>>
                 ELSE IF Ref(p[1], Head(ps)[1]) = LT THEN <<p>> \o ps
                 ELSE <<Head(ps)>> \o InsKey(Tail(ps), p)
SortPs(ps) == LET F[i \in 0..Len(ps)] == IF i = 0 THEN <<>> ELSE InsKey(F[i - 1], ps[i]) IN F[Len(ps)]
\* a map as the sequence key1, value1, key2, value2, ... over sorted keys
Flat(ps) == LET s == SortPs(ps) IN [i \in 1..(2 * Len(s)) |-> s[(i + 1) \div 2][IF i % 2 = 1 THEN 1 ELSE 2]]

Ref(a, b) ==
    CASE a.k = "nil" -> (IF b.k = "nil" THEN EQ ELSE LT)
      [] b.k = "nil" -> GT
      [] a.k = "leaf" -> CmpInt(a.c, b.c)
      [] a.k = "seq" -> LexRef(a.es, b.es)
      [] a.k = "map" -> LexRef(Flat(a.ps), Flat(b.ps))

----------------------------------------------------------------------------
(* Laws over one table *)

N(t) == Len(t.vals)
Ix(t) == 1..N(t)

L1(t) == \A i \in Ix(t) : t.rank[i][i] = EQ                         \* reflexive (also: a rebuilt copy ranks Equal)
L2(t) == \A i, j \in Ix(t) : t.rank[i][j] = Mirror(t.rank[j][i])    \* mirror image
L3(t) == \A i, j, k \in Ix(t) :                                     \* lesser-or-equal is transitive
            (t.rank[i][j] \in {LT, EQ} /\ t.rank[j][k] \in {LT, EQ}) => t.rank[i][k] \in {LT, EQ}
NoPanic(t) == \A i, j \in Ix(t) : t.rank[i][j] # 0 /\ t.eq[i][j] # 2
L4(t) == \A i, j \in Ix(t) :                                        \* the documented order, where it is pinned
            (t.vals[i].pin /\ t.vals[j].pin) => t.rank[i][j] = Ref(t.vals[i].d, t.vals[j].d)
L8(t) == \A i, j \in Ix(t) : (t.eq[i][j] = 1) <=> (t.rank[i][j] = EQ)   \* compare agrees with rank
L8s(t) == \A i, j \in Ix(t) : t.eq[i][j] = t.eq[j][i]
L8t(t) == \A i, j, k \in Ix(t) : (t.eq[i][j] = 1 /\ t.eq[j][k] = 1) => t.eq[i][k] = 1

LawNames == <<"L1-reflexive", "L2-mirror", "L3-transitive", "no-panic", "L4-documented-order",
              "L8-compare-agrees-with-rank", "L8-compare-symmetric", "L8-compare-transitive">>
Law(t, n) == CASE n = 1 -> L1(t) [] n = 2 -> L2(t) [] n = 3 -> L3(t) [] n = 4 -> NoPanic(t)
               [] n = 5 -> L4(t) [] n = 6 -> L8(t) [] n = 7 -> L8s(t) [] n = 8 -> L8t(t)

Tables == IF MODE = "check" THEN ndJsonDeserialize(IOEnv.TRACE) ELSE <<>>
\* failed (table index, law index) pairs
Failed == {<<ti, n>> \in (1..Len(Tables)) \X (1..8) : ~Law(Tables[ti], n)}

\* L9 statelessness: tables of the same name recorded in different modes coincide
Stateful == {<<a, b>> \in (1..Len(Tables)) \X (1..Len(Tables)) :
               a < b /\ Tables[a].name = Tables[b].name
               /\ (Tables[a].rank # Tables[b].rank \/ Tables[a].eq # Tables[b].eq)}

----------------------------------------------------------------------------
(* The structural universe *)

Leaves == {[k |-> "leaf", c |-> i] : i \in 0..(NLeaf - 1)}
SeqsOf(S, n) == UNION {[1..m -> S] : m \in 0..n}
FlatSeqs == {[k |-> "seq", es |-> s] : s \in SeqsOf(Leaves, MaxLen)}
\* maps: sets of distinct keys with values, as association sequences in key order
MapsOf(Ks, Vs, n) == UNION {{[i \in 1..m |-> <<f[i][1], f[i][2]>>] :
                              f \in {g \in [1..m -> Ks \X Vs] : \A i, j \in 1..m : i < j => g[i][1].c < g[j][1].c}} : m \in 0..n}
FlatMaps == {[k |-> "map", ps |-> p] : p \in MapsOf(Leaves, Leaves, MaxLen)}
\* nested once: sequences of (short) sequences, maps from leaves to (short) sequences
ShortSeqs == {[k |-> "seq", es |-> s] : s \in SeqsOf(Leaves, 1)} \cup {[k |-> "seq", es |-> <<[k |-> "leaf", c |-> 0], [k |-> "leaf", c |-> 1]>>]}
NestedSeqs == {[k |-> "seq", es |-> s] : s \in SeqsOf(ShortSeqs, 2)}
NestedMaps == {[k |-> "map", ps |-> p] : p \in MapsOf(Leaves, ShortSeqs, 1)}
\* sequences of `any` with undefined members
WithNil == {[k |-> "seq", es |-> s] : s \in SeqsOf(Leaves \cup {[k |-> "nil"]}, 2)}

\* maps whose values may be undefined (nil): a nil value is not an absent key
NilMaps == {[k |-> "map", ps |-> p] : p \in MapsOf(Leaves, {[k |-> "leaf", c |-> 1], [k |-> "nil"]}, MaxLen)}

Universe == [flatseqs |-> FlatSeqs, flatmaps |-> FlatMaps, nestedseqs |-> NestedSeqs,
             nestedmaps |-> NestedMaps, withnil |-> WithNil, nilmaps |-> NilMaps]

VARIABLE dummy
Init == /\ dummy = 0
        /\ IF MODE = "gen"
           THEN \A name \in DOMAIN Universe : \A d \in Universe[name] : PrintT(ToJson([u |-> name, d |-> d]))
           ELSE PrintT(<<"FAILED", Failed>>) /\ PrintT(<<"STATEFUL", Stateful>>)
Next == UNCHANGED dummy
Spec == Init /\ [][Next]_dummy
=============================================================================
