------------------------------ MODULE SortLaws ------------------------------
(***************************************************************************)
(* C09: the contract of SorterLike.SortValues / ReverseValues /             *)
(* ShuffleValues and of the Sort/Reverse/Shuffle methods of Array, List and *)
(* Catalog, as laws over recorded observations.                             *)
(*                                                                          *)
(* MODE = "gen": TLC enumerates the inputs (every array of length 0..MaxLen *)
(*   over Vals, as sequences of value tokens) and prints them as JSON.      *)
(* MODE = "check": the harness has run the real code on those inputs (and   *)
(*   on seeded random long arrays); each record of the ndjson file (env     *)
(*   TRACE) is  [op, via, ranker, input, output, calls]  where input/output *)
(*   are sequences of <<value, tag>> pairs (the tag is unique per position  *)
(*   so that a lost, duplicated or altered element shows even among ties),  *)
(*   `via` names the API through which the operation was invoked and        *)
(*   `calls` is the number of ranker calls.                                 *)
(***************************************************************************)
EXTENDS Integers, Sequences, FiniteSets, Json, IOUtils, TLC

CONSTANTS MODE, MaxLen, Vals

LT == 1
EQ == 2
GT == 3
CmpInt(a, b) == IF a < b THEN LT ELSE IF a > b THEN GT ELSE EQ
Rank(name, a, b) ==
    CASE name = "nat"     -> CmpInt(a, b)
      [] name = "rev"     -> CmpInt(b, a)
      [] name = "coarse"  -> CmpInt(a \div 2, b \div 2)
      [] name = "const"   -> EQ
      [] name = "lesser"  -> LT
      [] name = "greater" -> GT
      [] name = "odd"     -> IF (a + b) % 2 = 1 THEN LT ELSE GT
Preorders == {"nat", "rev", "coarse", "const"}

Range(s) == {s[i] : i \in DOMAIN s}
\* permutation of sequences of pairs with unique tags: same set of pairs, same length
IsPermTagged(a, b) == Len(a) = Len(b) /\ Range(a) = Range(b) /\ Cardinality(Range(b)) = Len(b)
Ascending(s, name) == \A i \in 1..(Len(s) - 1) : Rank(name, s[i][1], s[i + 1][1]) # GT
\* the default ranker on <<value, tag>> pairs (and on associations key -> value)
\* is lexicographic, hence total on distinct pairs: the result is determined
LexAscending(s) == \A i \in 1..(Len(s) - 1) : \/ s[i][1] < s[i + 1][1]
                                              \/ s[i][1] = s[i + 1][1] /\ s[i][2] < s[i + 1][2]
Rev(s) == [i \in 1..Len(s) |-> s[Len(s) + 1 - i]]

\* ceil(log2(n)) for n >= 1
RECURSIVE CeilLog2(_)
CeilLog2(n) == IF n <= 1 THEN 0 ELSE 1 + CeilLog2((n + 1) \div 2)

RecOK(x) ==
    LET n == Len(x.input) IN
    CASE x.op = "sort" ->
           /\ IsPermTagged(x.output, x.input)                       \* nothing lost, duplicated or altered
           /\ x.ranker \in Preorders => Ascending(x.output, x.ranker)
           /\ x.ranker = "natlex" => LexAscending(x.output)         \* natural order of the pairs themselves
      [] x.op = "reverse" -> x.output = Rev(x.input)
      [] x.op = "reverse2" -> x.output = x.input                    \* applying it twice is the identity
      [] x.op = "shuffle" -> IsPermTagged(x.output, x.input)
      [] x.op = "stable" -> x.output = x.input                      \* a later call on the same sorter leaves earlier results alone
      [] x.op = "timeout" -> FALSE                                   \* the call did not return

Recs == IF MODE = "check" THEN ndJsonDeserialize(IOEnv.TRACE) ELSE <<>>
Bad == {i \in 1..Len(Recs) : ~RecOK(Recs[i])}

\* the merge sort's comparison bound: a property of the algorithm, not of the
\* contract (another correct sort may need more): exceeding it is model drift
OverBound == {i \in 1..Len(Recs) : Recs[i].op = "sort" /\
                 LET n == Len(Recs[i].input) IN Recs[i].calls > n * CeilLog2(n) + n}

Inputs == UNION {[1..k -> Vals] : k \in 0..MaxLen}

VARIABLE dummy
Init == /\ dummy = 0
        /\ IF MODE = "gen" THEN \A s \in Inputs : PrintT(ToJson(s)) ELSE (PrintT(<<"BAD", Bad>>) /\ PrintT(<<"OVERBOUND", OverBound>>))
Next == UNCHANGED dummy
Spec == Init /\ [][Next]_dummy
=============================================================================
