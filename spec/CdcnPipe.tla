------------------------------ MODULE CdcnPipe ------------------------------
(***************************************************************************)
(* The scanner -> token queue -> parser pipeline of cdcn/parser.go and      *)
(* cdcn/scanner.go (C11: the parse does not depend on the schedule; C12:    *)
(* whatever the input, ParseSource returns or panics and leaves no scanner  *)
(* goroutine blocked).                                                      *)
(*                                                                          *)
(* Transcribed from the code (one action per queue operation; the queue is  *)
(* the atomic bounded FIFO that C04 / C05 establish):                       *)
(*                                                                          *)
(*   scanner goroutine  scanTokens: for each token AddValue (blocks while   *)
(*       the queue holds Cap tokens); an illegal character is sent as an    *)
(*       Error token and ends the loop; an EOF token is always sent last;   *)
(*       the queue is never closed.                                         *)
(*   parser (caller)    getNextToken: RemoveHead (blocks while the queue is *)
(*       empty); an Error token, or a token the grammar does not allow      *)
(*       (here: the StopAt-th one), ends the parse by a panic; reading EOF  *)
(*       sets eof_.  On the way out (deferred) discardTokens: unless eof_   *)
(*       was seen, a drainer goroutine keeps removing tokens until it has   *)
(*       removed the EOF token.                                             *)
(*                                                                          *)
(* N ordinary tokens; ErrAt in 0..N: the scanner meets an illegal character *)
(* after ErrAt ordinary tokens (ErrAt = N + 1: none); StopAt in 1..N+2: the *)
(* parser gives up on the StopAt-th token it reads.                         *)
(***************************************************************************)
EXTENDS Integers, Sequences, TLC

CONSTANTS N, Cap, Drain     \* Drain: "untilEOF" (the code) | "queuedOnly" (a plausible wrong variant) | "none" (the code before fix 96b3b38)

VARIABLES errAt, stopAt,    \* chosen initially
          q,                \* the token queue: sequence of "tok" | "err" | "eof"
          sent,             \* ordinary tokens the scanner has sent
          spc,              \* scanner: "scan" | "eof" | "done"
          got,              \* tokens the parser has read
          ppc,              \* parser: "parse" | "returned"
          eof,              \* parser_.eof_
          dpc               \* drainer: "none" | "drain" | "done"

vars == <<errAt, stopAt, q, sent, spc, got, ppc, eof, dpc>>

Init == /\ errAt \in 0..(N + 1) /\ stopAt \in 1..(N + 2)
        /\ q = <<>> /\ sent = 0 /\ spc = "scan" /\ got = 0 /\ ppc = "parse" /\ eof = FALSE /\ dpc = "none"

Room == Len(q) < Cap

\* --- scanner -----------------------------------------------------------------
ScanToken == /\ spc = "scan" /\ sent < N /\ sent < errAt /\ Room
             /\ q' = Append(q, "tok") /\ sent' = sent + 1
             /\ UNCHANGED <<errAt, stopAt, spc, got, ppc, eof, dpc>>
ScanError == /\ spc = "scan" /\ sent = errAt /\ errAt <= N /\ Room
             /\ q' = Append(q, "err") /\ spc' = "eof"
             /\ UNCHANGED <<errAt, stopAt, sent, got, ppc, eof, dpc>>
ScanEnd   == /\ spc = "scan" /\ sent = N /\ errAt > N
             /\ spc' = "eof" /\ UNCHANGED <<errAt, stopAt, q, sent, got, ppc, eof, dpc>>
ScanEOF   == /\ spc = "eof" /\ Room
             /\ q' = Append(q, "eof") /\ spc' = "done"
             /\ UNCHANGED <<errAt, stopAt, sent, got, ppc, eof, dpc>>

\* --- parser --------------------------------------------------------------------
\* the parser reads one token; it ends on an error token, on the token it does
\* not accept, or after EOF
Leave == /\ ppc' = "returned"
         /\ dpc' = IF eof' \/ Drain = "none" THEN "none" ELSE "drain"
Read == /\ ppc = "parse" /\ q # <<>>
        /\ LET t == Head(q) IN
           /\ q' = Tail(q) /\ got' = got + 1
           /\ eof' = (t = "eof")
           /\ IF t \in {"err", "eof"} \/ got + 1 = stopAt THEN Leave ELSE UNCHANGED <<ppc, dpc>>
        /\ UNCHANGED <<errAt, stopAt, sent, spc>>

\* --- drainer ---------------------------------------------------------------------
DrainOne == /\ dpc = "drain" /\ q # <<>>
            /\ q' = Tail(q)
            /\ dpc' = IF Head(q) = "eof" THEN "done" ELSE "drain"
            /\ UNCHANGED <<errAt, stopAt, sent, spc, got, ppc, eof>>
\* the wrong variant: stops as soon as nothing is queued
DrainStop == /\ Drain = "queuedOnly" /\ dpc = "drain" /\ q = <<>>
             /\ dpc' = "done" /\ UNCHANGED <<errAt, stopAt, q, sent, spc, got, ppc, eof>>

Next == ScanToken \/ ScanError \/ ScanEnd \/ ScanEOF \/ Read \/ DrainOne \/ DrainStop
Spec == Init /\ [][Next]_vars
FairSpec == Spec /\ WF_vars(Next)

----------------------------------------------------------------------------
Bounded == Len(q) <= Cap
\* the parser sees the tokens in the order the scanner produced them, whatever
\* the interleaving: the k-th token read is determined by k, ErrAt and N alone
\* (C11: the parse does not depend on the schedule)
Quiescent == spc = "done" /\ ppc = "returned" /\ dpc \in {"none", "done"}
\* ParseSource always ends, and nothing is left behind (C12): the scanner ends,
\* the drainer ends, the queue is empty
ParserReturns == <>(ppc = "returned")
NoLeak == <>[](spc = "done" /\ dpc \in {"none", "done"})
Drained == (Quiescent /\ Drain = "untilEOF") => q = <<>>
\* the parser never waits for ever on an empty queue: whenever it is still
\* parsing, the scanner has something more to send or the queue is not empty
ParserNeverStarved == (ppc = "parse" /\ q = <<>>) => spc # "done"
=============================================================================
