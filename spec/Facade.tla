------------------------------- MODULE Facade -------------------------------
(***************************************************************************)
(* C20: the universal (module-level) constructors against the class-level   *)
(* constructors and the parser.                                             *)
(*                                                                          *)
(* MODE = "gen": TLC enumerates the matrix of cells                         *)
(*     kind x documented argument form x content size x notation position   *)
(*     x kind of the collection passed as the sequence argument             *)
(* MODE = "check": for every cell and element type the harness has called   *)
(*   the module-level constructor, the class-level constructor with the     *)
(*   same data and (source form) ParseSource; each outcome is               *)
(*   [st |-> "ok" | "panic" | "timeout", d |-> descriptor]; descriptors     *)
(*   carry kind, items in order (associations as <<key, value>>), capacity  *)
(*   and collator where the kind has one.                                   *)
(*                                                                          *)
(* Law: where the class-level constructor (or the parser) builds a          *)
(* collection, the module-level constructor builds the same one; where it   *)
(* refuses (panics), the module-level constructor must not silently build   *)
(* something else.  Association(k, v) has key k and value v.                *)
(***************************************************************************)
EXTENDS Integers, Sequences, FiniteSets, Json, IOUtils, TLC

CONSTANTS MODE

Kinds == {"Array", "List", "Set", "Stack", "Queue", "Catalog", "Map"}
\* the argument forms documented in Module.go for each kind
Forms(k) ==
    CASE k = "Array"   -> {"size", "array", "sequence", "source"}
      [] k = "List"    -> {"none", "array", "sequence", "source"}
      [] k = "Set"     -> {"none", "array", "sequence", "source", "collator", "collator+array", "collator+sequence", "collator+source"}
      [] k = "Stack"   -> {"none", "capacity", "array", "sequence", "source"}
      [] k = "Queue"   -> {"none", "capacity", "array", "sequence", "source"}
      [] k = "Catalog" -> {"none", "array", "gomap", "sequence", "source"}
      [] k = "Map"     -> {"none", "array", "gomap", "sequence", "source"}
DefaultCap == 16
Sizes(f) == IF f \in {"none", "collator"} THEN {0}
            ELSE IF f \in {"size", "capacity"} THEN {1, 2, DefaultCap, DefaultCap + 1}
            ELSE {0, 1, 2, 3, DefaultCap - 1, DefaultCap, DefaultCap + 1, 20}
Positions == {"absent", "first", "last"}

\* the `sequence` argument may be a collection of any kind: a set brings its own
\* order (possibly that of a custom collator), a stack lists its top first
Srcs(k, f) == IF f \notin {"sequence", "collator+sequence"} THEN {""}
              ELSE IF k \in {"Catalog", "Map"} THEN {"List", "Array", "Catalog"}
              ELSE {"List", "Array", "Set", "SetRev", "Stack", "Queue"}
AllSrcs == {"", "List", "Array", "Set", "SetRev", "Stack", "Queue", "Catalog"}

Cells == {[kind |-> k, form |-> f, n |-> n, npos |-> p, src |-> s] :
             k \in Kinds, f \in UNION {Forms(kk) : kk \in Kinds}, n \in 0..20, p \in Positions, s \in AllSrcs}
Matrix == {c \in Cells : c.form \in Forms(c.kind) /\ c.n \in Sizes(c.form) /\ c.src \in Srcs(c.kind, c.form)}
AssocCells == {[kind |-> "Association", form |-> "pair", n |-> i, npos |-> p, src |-> ""] : i \in 0..4, p \in Positions}

Recs == IF MODE = "check" THEN ndJsonDeserialize(IOEnv.TRACE) ELSE <<>>

RecOK(x) ==
    IF x.kind = "Association"
    THEN x.module.st = "ok" /\ x.module.d = x.class.d          \* key k and value v, for every pair of types
    ELSE /\ x.class.st = "ok" => (x.module.st = "ok" /\ x.module.d = x.class.d)
         /\ x.class.st = "panic" => x.module.st = "panic"
         /\ x.module.st # "timeout"
         /\ (x.form \in {"source", "collator+source"} /\ x.parse.st = "ok") =>
                (x.module.st = "ok" /\ x.module.d.items = x.parse.d.items)

Bad == {i \in 1..Len(Recs) : ~RecOK(Recs[i])}

VARIABLE dummy
Init == /\ dummy = 0
        /\ IF MODE = "gen" THEN \A c \in Matrix \cup AssocCells : PrintT(ToJson(c)) ELSE PrintT(<<"BAD", Bad>>)
Next == UNCHANGED dummy
Spec == Init /\ [][Next]_dummy
=============================================================================
