------------------------------ MODULE QueueLin ------------------------------
(***************************************************************************)
(* Property-level specification of the Queue (C04, C05): an atomic bounded  *)
(* FIFO.  Every call is invoked, takes effect atomically at some point      *)
(* (Lin) and returns; the results must be explained by one such order       *)
(* consistent with real time (linearizability).                             *)
(*                                                                          *)
(*   add v    : appends v (must not be linearised on a closed queue: that   *)
(*              is a client error and not part of the program family)       *)
(*   rem      : returns <<head, TRUE>> and removes it; returns <<0, FALSE>> *)
(*              only if the queue is closed and empty; otherwise waits      *)
(*   close    : closes                                                      *)
(*   clear    : discards every value (RemoveAll); on a closed queue the     *)
(*              property is silent about whether the queue is open again    *)
(*              afterwards (the code re-opens it): both are allowed, and    *)
(*              what follows in the history decides                         *)
(*   size = s : s <= Cap and s <= Len(q)   (never more than capacity, never *)
(*              values that are not there)                                  *)
(*   empty = b: b = FALSE only if the queue is non-empty                    *)
(*   array = a: the content in FIFO order, possibly preceded by values whose *)
(*              removal is in flight (taken effect, call not yet returned): *)
(*              "added and not yet removed" is silent about those           *)
(*                                                                          *)
(* Back-pressure is a counting condition on the history itself (see         *)
(* TraceQueueLin!BackPressure): when an add returns, the adds returned so   *)
(* far exceed the removals invoked so far by at most Cap.                   *)
(* No call that is valid on its own may panic: a logged panic has no Lin.   *)
(***************************************************************************)
EXTENDS Integers, Sequences

\* the effect of call c (a record [op, v]) with result r (tagged record) on
\* abstract state [q, closed]; Lin is enabled iff CanLin holds
CanLin(st, c, r, inflight) ==
    CASE c.op = "add"   -> ~st.closed /\ r = [t |-> "none"]
      [] c.op = "rem"   -> \/ st.q # <<>> /\ r = [t |-> "tokok", v |-> Head(st.q), ok |-> TRUE]
                           \/ st.q = <<>> /\ st.closed /\ r = [t |-> "tokok", v |-> 0, ok |-> FALSE]
      [] c.op = "close" -> ~st.closed /\ r = [t |-> "none"]
      [] c.op = "clear" -> r = [t |-> "none"]
      [] c.op = "size"  -> r.t = "int" /\ r.v >= 0 /\ r.v <= st.cap /\ r.v <= Len(st.q)
      [] c.op = "empty" -> r.t = "bool" /\ (r.v = FALSE => st.q # <<>>)
      [] c.op = "array" -> /\ r.t = "seq" /\ Len(r.v) >= Len(st.q)
                           /\ LET k == Len(r.v) - Len(st.q) IN
                              /\ SubSeq(r.v, k + 1, Len(r.v)) = st.q
                              /\ \A i \in 1..k : r.v[i] \in inflight

Effects(st, c) ==
    CASE c.op = "add"   -> {[st EXCEPT !.q = Append(@, c.v)]}
      [] c.op = "rem"   -> {IF st.q # <<>> THEN [st EXCEPT !.q = Tail(@)] ELSE st}
      [] c.op = "close" -> {[st EXCEPT !.closed = TRUE]}
      [] c.op = "clear" -> {[st EXCEPT !.q = <<>>], [st EXCEPT !.q = <<>>, !.closed = FALSE]}
      [] OTHER -> {st}
=============================================================================
