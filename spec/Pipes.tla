------------------------------- MODULE Pipes -------------------------------
(***************************************************************************)
(* Fork, Split and Join (collection/queue.go class functions), C06.         *)
(*                                                                          *)
(* Granularity: one action per *library call* of a process on a queue; the  *)
(* queues themselves are atomic bounded FIFOs, which is what C04 / C05      *)
(* establish for the real queue (QueueImpl refines QueueLin); the helper    *)
(* loops are transcribed statement by statement from queue.go:              *)
(*                                                                          *)
(*   Fork  : loop { v, ok = in.RemoveHead(); if !ok break;                  *)
(*                  for each output: output.AddValue(v) }                   *)
(*           for each output: output.CloseQueue(); group.Done()             *)
(*   Split : loop { v, ok = in.RemoveHead(); if !ok break;                  *)
(*                  outputs[next].AddValue(v); next = next mod k + 1 }      *)
(*           for each output: output.CloseQueue(); group.Done()             *)
(*   Join  : loop { v, ok = inputs[next].RemoveHead(); if !ok break;        *)
(*                  output.AddValue(v); next = next mod k + 1 }             *)
(*           output.CloseQueue(); group.Done()                              *)
(*                                                                          *)
(* Client processes: a feeder adds the stream to the input and closes it;   *)
(* one reader per final output reads until ok = false.                      *)
(***************************************************************************)
EXTENDS Integers, Sequences, FiniteSets, TLC

CONSTANTS Mode,     \* "fork" | "split" | "splitjoin"
          K,        \* fan-out
          Stream,   \* the input sequence (distinct values)
          Cap       \* capacity of every queue

VARIABLES qs,       \* qs[name] = [q |-> Seq, closed |-> BOOLEAN]
          pc,       \* pc[p]: program counter of process p
          idx,      \* idx[p]: round-robin / loop position of helper p (1..K)
          cur,      \* cur[p]: value a helper holds between RemoveHead and AddValue
          sent,     \* number of stream values the feeder has added
          got,      \* got[r]: sequence received by reader r
          wg        \* the caller's wait group counter

vars == <<qs, pc, idx, cur, sent, got, wg>>

Outs == {"o" \o ToString(i) : i \in 1..K}
Out(i) == "o" \o ToString(i)
Queues == {"in"} \cup Outs \cup (IF Mode = "splitjoin" THEN {"joined"} ELSE {})
Readers == IF Mode = "splitjoin" THEN {"r"} ELSE {"r" \o ToString(i) : i \in 1..K}
ReaderQ(r) == IF Mode = "splitjoin" THEN "joined"
              ELSE Out(CHOOSE i \in 1..K : r = "r" \o ToString(i))
Helpers == {"helper"} \cup (IF Mode = "splitjoin" THEN {"joiner"} ELSE {})
Procs == {"feeder"} \cup Helpers \cup Readers

Init ==
    /\ qs = [n \in Queues |-> [q |-> <<>>, closed |-> FALSE]]
    /\ pc = [p \in Procs |-> IF p = "feeder" THEN "feed" ELSE IF p \in Helpers THEN "take" ELSE "read"]
    /\ idx = [p \in Helpers |-> 1]
    /\ cur = [p \in Helpers |-> 0]
    /\ sent = 0
    /\ got = [r \in Readers |-> <<>>]
    /\ wg = Cardinality(Helpers)            \* group.Add(1) precedes each `go`

CanAdd(n) == Len(qs[n].q) < Cap /\ ~qs[n].closed
CanRem(n) == qs[n].q # <<>> \/ qs[n].closed
AddTo(n, v) == [qs EXCEPT ![n].q = Append(@, v)]
RemFrom(n) == [qs EXCEPT ![n].q = Tail(@)]

\* --- feeder ---------------------------------------------------------------
FeederAdd ==
    /\ pc["feeder"] = "feed" /\ sent < Len(Stream) /\ CanAdd("in")
    /\ qs' = AddTo("in", Stream[sent + 1]) /\ sent' = sent + 1
    /\ UNCHANGED <<pc, idx, cur, got, wg>>
FeederClose ==
    /\ pc["feeder"] = "feed" /\ sent = Len(Stream)
    /\ qs' = [qs EXCEPT !["in"].closed = TRUE]
    /\ pc' = [pc EXCEPT !["feeder"] = "done"]
    /\ UNCHANGED <<idx, cur, sent, got, wg>>

\* --- Fork / Split helper ("helper") ----------------------------------------
HelperTake ==
    /\ pc["helper"] = "take" /\ CanRem("in")
    /\ IF qs["in"].q # <<>>
       THEN /\ cur' = [cur EXCEPT !["helper"] = Head(qs["in"].q)]
            /\ qs' = RemFrom("in")
            /\ pc' = [pc EXCEPT !["helper"] = "put"]
            /\ idx' = IF Mode = "fork" THEN [idx EXCEPT !["helper"] = 1] ELSE idx
       ELSE /\ pc' = [pc EXCEPT !["helper"] = "closing"]
            /\ idx' = [idx EXCEPT !["helper"] = 1]
            /\ UNCHANGED <<cur, qs>>
    /\ UNCHANGED <<sent, got, wg>>
HelperPut ==
    /\ pc["helper"] = "put" /\ CanAdd(Out(idx["helper"]))
    /\ qs' = AddTo(Out(idx["helper"]), cur["helper"])
    /\ IF Mode = "fork"
       THEN IF idx["helper"] < K
            THEN idx' = [idx EXCEPT !["helper"] = @ + 1] /\ UNCHANGED pc
            ELSE idx' = idx /\ pc' = [pc EXCEPT !["helper"] = "take"]
       ELSE /\ idx' = [idx EXCEPT !["helper"] = (@ % K) + 1]       \* round robin
            /\ pc' = [pc EXCEPT !["helper"] = "take"]
    /\ UNCHANGED <<cur, sent, got, wg>>
HelperClose ==
    /\ pc["helper"] = "closing"
    /\ qs' = [qs EXCEPT ![Out(idx["helper"])].closed = TRUE]
    /\ IF idx["helper"] < K
       THEN idx' = [idx EXCEPT !["helper"] = @ + 1] /\ UNCHANGED <<pc, wg>>
       ELSE idx' = idx /\ pc' = [pc EXCEPT !["helper"] = "done"] /\ wg' = wg - 1
    /\ UNCHANGED <<cur, sent, got>>

\* --- Join helper ("joiner") -------------------------------------------------
JoinerTake ==
    /\ Mode = "splitjoin" /\ pc["joiner"] = "take" /\ CanRem(Out(idx["joiner"]))
    /\ LET n == Out(idx["joiner"]) IN
       IF qs[n].q # <<>>
       THEN /\ cur' = [cur EXCEPT !["joiner"] = Head(qs[n].q)]
            /\ qs' = RemFrom(n)
            /\ pc' = [pc EXCEPT !["joiner"] = "put"]
       ELSE /\ pc' = [pc EXCEPT !["joiner"] = "closing"]
            /\ UNCHANGED <<cur, qs>>
    /\ UNCHANGED <<idx, sent, got, wg>>
JoinerPut ==
    /\ Mode = "splitjoin" /\ pc["joiner"] = "put" /\ CanAdd("joined")
    /\ qs' = AddTo("joined", cur["joiner"])
    /\ idx' = [idx EXCEPT !["joiner"] = (@ % K) + 1]
    /\ pc' = [pc EXCEPT !["joiner"] = "take"]
    /\ UNCHANGED <<cur, sent, got, wg>>
JoinerClose ==
    /\ Mode = "splitjoin" /\ pc["joiner"] = "closing"
    /\ qs' = [qs EXCEPT !["joined"].closed = TRUE]
    /\ pc' = [pc EXCEPT !["joiner"] = "done"] /\ wg' = wg - 1
    /\ UNCHANGED <<idx, cur, sent, got>>

\* --- readers ----------------------------------------------------------------
Read(r) ==
    /\ pc[r] = "read" /\ CanRem(ReaderQ(r))
    /\ LET n == ReaderQ(r) IN
       IF qs[n].q # <<>>
       THEN /\ got' = [got EXCEPT ![r] = Append(@, Head(qs[n].q))]
            /\ qs' = RemFrom(n) /\ UNCHANGED pc
       ELSE /\ pc' = [pc EXCEPT ![r] = "done"] /\ UNCHANGED <<got, qs>>
    /\ UNCHANGED <<idx, cur, sent, wg>>

Next == FeederAdd \/ FeederClose \/ HelperTake \/ HelperPut \/ HelperClose
        \/ JoinerTake \/ JoinerPut \/ JoinerClose \/ \E r \in Readers : Read(r)

Spec == Init /\ [][Next]_vars
FairSpec == Spec /\ WF_vars(Next)

----------------------------------------------------------------------------
(* Properties (C06) *)

AllDone == \A p \in Procs : pc[p] = "done"
IsPrefix(s, t) == Len(s) <= Len(t) /\ SubSeq(t, 1, Len(s)) = s

\* the subsequence of Stream at positions congruent to i modulo K
Lane(i) == LET n == Len(Stream)
               m == (n + K - i) \div K IN
           [j \in 1..m |-> Stream[(j - 1) * K + i]]

Expected(r) == CASE Mode = "fork" -> Stream
                 [] Mode = "split" -> Lane(CHOOSE i \in 1..K : r = "r" \o ToString(i))
                 [] Mode = "splitjoin" -> Stream

\* order and conservation: what a reader has received is always a prefix of
\* what it is due, and exactly that at termination
OrderInv == \A r \in Readers : IsPrefix(got[r], Expected(r))
Complete == AllDone => \A r \in Readers : got[r] = Expected(r)
\* after termination every queue is closed and empty, the wait group is zero
ClosedAfterDrain == AllDone => /\ \A n \in Queues : qs[n].closed /\ qs[n].q = <<>>
                               /\ wg = 0
Bounded == \A n \in Queues : Len(qs[n].q) <= Cap
WgInv == wg = Cardinality({p \in Helpers : pc[p] # "done"})
NoStuck == AllDone \/ ENABLED Next
Termination == <>AllDone
=============================================================================
