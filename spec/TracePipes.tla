----------------------------- MODULE TracePipes -----------------------------
(***************************************************************************)
(* Property-level judgement of recorded runs of the real Fork / Split /     *)
(* Join pipelines (C06).  Each record of the ndjson file (env TRACE) is one *)
(* run that the harness observed to the end:                                *)
(*   mode, k, stream, done (every goroutine finished before the deadline),  *)
(*   readers[i] = [got |-> sequence received, closed |-> saw ok = false],   *)
(*   wg (wait group counter at the end), wgspawn[j] (counter when the j-th  *)
(*   helper goroutine was started).                                         *)
(* The relations are those of Pipes.tla (Expected / Lane), stated on the    *)
(* observation alone so that any implementation is judged the same way.     *)
(***************************************************************************)
EXTENDS Integers, Sequences, Json, IOUtils, TLC

Recs == ndJsonDeserialize(IOEnv.TRACE)

Lane(stream, k, i) == LET n == Len(stream)  m == (n + k - i) \div k IN
                      [j \in 1..m |-> stream[(j - 1) * k + i]]

Expected(x, i) == IF x.mode = "split" THEN Lane(x.stream, x.k, i) ELSE x.stream

RecOK(x) ==
    /\ x.done                                          \* terminates
    /\ Len(x.readers) = (IF x.mode = "splitjoin" THEN 1 ELSE x.k)
    /\ \A i \in 1..Len(x.readers) :
         /\ x.readers[i].closed                        \* closed after drain, nothing after closure
         /\ x.readers[i].got = Expected(x, i)          \* conserved, ordered, round robin
    /\ x.wg = 0                                        \* helpers finished
    /\ \A j \in 1..Len(x.wgspawn) : x.wgspawn[j] >= j  \* group.Add precedes the go statement

Bad == {i \in 1..Len(Recs) : ~RecOK(Recs[i])}

VARIABLE dummy
Init == dummy = 0 /\ PrintT(<<"BAD", Bad>>)
Next == UNCHANGED dummy
Spec == Init /\ [][Next]_dummy
=============================================================================
