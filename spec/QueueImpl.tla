----------------------------- MODULE QueueImpl -----------------------------
(***************************************************************************)
(* Implementation-level model of collection/queue.go: a mutex, a token      *)
(* channel ("available_") and a value list, with client processes running   *)
(* fixed programs of calls.  One action per synchronisation step of the     *)
(* code (= per scheduling point of the verif hooks):                        *)
(*                                                                          *)
(*   Start(p)    the harness goroutine invokes its next call and runs up to *)
(*               the first hook                                             *)
(*   AddCrit(p)  Lock; values_.AppendValue(v); Unlock                       *)
(*   AddSend(p)  available_ <- true   (evaluates the channel field now)     *)
(*   RemRecv(p)  _, ok = <-available_ (evaluates the channel field now)     *)
(*   RemCrit(p)  Lock; head = values_.RemoveValue(1); Unlock                *)
(*   Close(p)    Lock; close(available_); Unlock                            *)
(*   Clear(p)    Lock; available_ = make(chan, cap); values_ = empty; Unlock*)
(*   Size(p), Empty(p), Array(p)   Lock; read; Unlock                       *)
(*                                                                          *)
(* Go channel semantics (buffered channel of capacity Cap): FIFO queues of  *)
(* parked senders / receivers, direct hand-off to a parked receiver, refill *)
(* from a parked sender, close wakes every parked receiver with ok = false. *)
(* A process parked on a channel stays bound to *that* channel even when    *)
(* RemoveAll replaces the field.                                            *)
(*                                                                          *)
(* The critical sections contain no scheduling point, so each is one atomic *)
(* step; a panic inside one leaves the mutex locked (no deferred unlock in  *)
(* queue.go): `locked` then disables every later critical section.         *)
(***************************************************************************)
EXTENDS Integers, Sequences, FiniteSets, TLC

CONSTANTS Procs,     \* process ids (strings)
          Prog,      \* Prog[p]: sequence of calls [op |-> "add"|"rem"|"close"|"clear"|"size"|"empty"|"array", v |-> value]
          After,     \* After[p]: processes that must have finished before p starts
          Cap,       \* queue capacity
          MaxChan    \* bound on the number of channels ever allocated

VARIABLES pc,        \* pc[p]: control point of p
          ci,        \* ci[p]: number of completed calls of p
          bound,     \* bound[p]: channel a parked / token-holding process is bound to
          vals,      \* the value list
          chans,     \* chans[c] = [buf, closed, rq, sq]
          avail,     \* current value of the channel field
          res,       \* res[p]: results returned to p so far
          locked     \* TRUE once a critical section panicked

vars == <<pc, ci, bound, vals, chans, avail, res, locked>>

NoChan == 0
EmptyChan == [buf |-> 0, closed |-> FALSE, rq |-> <<>>, sq |-> <<>>]

Init ==
    /\ pc = [p \in Procs |-> "idle"]
    /\ ci = [p \in Procs |-> 0]
    /\ bound = [p \in Procs |-> NoChan]
    /\ vals = <<>>
    /\ chans = [c \in 1..MaxChan |-> EmptyChan]
    /\ avail = 1
    /\ res = [p \in Procs |-> <<>>]
    /\ locked = FALSE

Call(p) == Prog[p][ci[p] + 1]
Finished(p) == pc[p] = "idle" /\ ci[p] = Len(Prog[p])
Dead(p) == pc[p] = "panicked"
AllDone == \A p \in Procs : Finished(p)

None == [t |-> "none"]
\* p's current call returns r
Return(p, r) == /\ ci' = [ci EXCEPT ![p] = @ + 1]
                /\ res' = [res EXCEPT ![p] = Append(@, r)]

FirstPc(op) == CASE op = "add" -> "add_crit" [] op = "rem" -> "rem_recv" [] op = "close" -> "close"
                 [] op = "clear" -> "clear" [] op = "size" -> "size" [] op = "empty" -> "empty"
                 [] op = "array" -> "array"

Start(p) ==
    /\ pc[p] = "idle" /\ ci[p] < Len(Prog[p])
    /\ \A q \in After[p] : Finished(q)
    /\ pc' = [pc EXCEPT ![p] = FirstPc(Call(p).op)]
    /\ UNCHANGED <<ci, bound, vals, chans, avail, res, locked>>

AddCrit(p) ==
    /\ pc[p] = "add_crit" /\ ~locked
    /\ vals' = Append(vals, Call(p).v)
    /\ pc' = [pc EXCEPT ![p] = "add_send"]
    /\ UNCHANGED <<ci, bound, chans, avail, res, locked>>

\* send on channel c = avail (evaluated at this step)
AddSend(p) ==
    /\ pc[p] = "add_send"
    /\ LET c == avail  ch == chans[c] IN
       IF ch.closed THEN                     \* send on closed channel: Go panics
            /\ pc' = [pc EXCEPT ![p] = "panicked"]
            /\ UNCHANGED <<ci, bound, vals, chans, avail, res, locked>>
       ELSE IF ch.rq # <<>> THEN             \* hand the token to the first parked receiver
            LET r == Head(ch.rq) IN
            /\ chans' = [chans EXCEPT ![c].rq = Tail(@)]
            /\ pc' = [pc EXCEPT ![p] = "idle", ![r] = "rem_crit"]
            /\ Return(p, None)
            /\ UNCHANGED <<bound, vals, avail, locked>>
       ELSE IF ch.buf < Cap THEN
            /\ chans' = [chans EXCEPT ![c].buf = @ + 1]
            /\ pc' = [pc EXCEPT ![p] = "idle"]
            /\ Return(p, None)
            /\ UNCHANGED <<bound, vals, avail, locked>>
       ELSE                                  \* full: park on c
            /\ chans' = [chans EXCEPT ![c].sq = Append(@, p)]
            /\ pc' = [pc EXCEPT ![p] = "add_parked"]
            /\ bound' = [bound EXCEPT ![p] = c]
            /\ UNCHANGED <<ci, vals, avail, res, locked>>

RemRecv(p) ==
    /\ pc[p] = "rem_recv"
    /\ LET c == avail  ch == chans[c] IN
       IF ch.buf > 0 THEN
            IF ch.sq # <<>> THEN             \* take a token; the first parked sender refills and returns
                LET s == Head(ch.sq) IN
                /\ chans' = [chans EXCEPT ![c].sq = Tail(@)]
                /\ pc' = [pc EXCEPT ![p] = "rem_crit", ![s] = "idle"]
                /\ ci' = [ci EXCEPT ![s] = @ + 1]
                /\ res' = [res EXCEPT ![s] = Append(@, None)]
                /\ bound' = [bound EXCEPT ![s] = NoChan]
                /\ UNCHANGED <<vals, avail, locked>>
            ELSE
                /\ chans' = [chans EXCEPT ![c].buf = @ - 1]
                /\ pc' = [pc EXCEPT ![p] = "rem_crit"]
                /\ UNCHANGED <<ci, bound, vals, avail, res, locked>>
       ELSE IF ch.closed THEN                \* closed and drained: ok = false
            /\ pc' = [pc EXCEPT ![p] = "idle"]
            /\ Return(p, [t |-> "tokok", v |-> 0, ok |-> FALSE])
            /\ UNCHANGED <<bound, vals, chans, avail, locked>>
       ELSE                                  \* empty: park on c
            /\ chans' = [chans EXCEPT ![c].rq = Append(@, p)]
            /\ pc' = [pc EXCEPT ![p] = "rem_parked"]
            /\ bound' = [bound EXCEPT ![p] = c]
            /\ UNCHANGED <<ci, vals, avail, res, locked>>

RemCrit(p) ==
    /\ pc[p] = "rem_crit" /\ ~locked
    /\ IF vals = <<>> THEN                   \* values_.RemoveValue(1) panics inside the lock
            /\ pc' = [pc EXCEPT ![p] = "panicked"]
            /\ locked' = TRUE
            /\ UNCHANGED <<ci, bound, vals, chans, avail, res>>
       ELSE /\ vals' = Tail(vals)
            /\ pc' = [pc EXCEPT ![p] = "idle"]
            /\ Return(p, [t |-> "tokok", v |-> Head(vals), ok |-> TRUE])
            /\ bound' = [bound EXCEPT ![p] = NoChan]
            /\ UNCHANGED <<chans, avail, locked>>

Close(p) ==
    /\ pc[p] = "close" /\ ~locked
    /\ LET c == avail  ch == chans[c] IN
       IF ch.closed THEN                     \* close of closed channel: panic inside the lock
            /\ pc' = [pc EXCEPT ![p] = "panicked"]
            /\ locked' = TRUE
            /\ UNCHANGED <<ci, bound, vals, chans, avail, res>>
       ELSE \* every parked receiver wakes with ok = false; parked senders would panic
            LET woken == {ch.rq[i] : i \in 1..Len(ch.rq)}
                killed == {ch.sq[i] : i \in 1..Len(ch.sq)} IN
            /\ chans' = [chans EXCEPT ![c].closed = TRUE, ![c].rq = <<>>, ![c].sq = <<>>]
            /\ pc' = [q \in Procs |-> IF q = p \/ q \in woken THEN "idle"
                                     ELSE IF q \in killed THEN "panicked" ELSE pc[q]]
            /\ ci' = [q \in Procs |-> IF q = p \/ q \in woken THEN ci[q] + 1 ELSE ci[q]]
            /\ res' = [q \in Procs |-> IF q = p THEN Append(res[q], None)
                                      ELSE IF q \in woken THEN Append(res[q], [t |-> "tokok", v |-> 0, ok |-> FALSE])
                                      ELSE res[q]]
            /\ bound' = [q \in Procs |-> IF q \in woken THEN NoChan ELSE bound[q]]
            /\ UNCHANGED <<vals, avail, locked>>

Clear(p) ==
    /\ pc[p] = "clear" /\ ~locked
    /\ avail < MaxChan
    /\ avail' = avail + 1
    /\ vals' = <<>>
    /\ pc' = [pc EXCEPT ![p] = "idle"]
    /\ Return(p, None)
    /\ UNCHANGED <<bound, chans, locked>>

Observe(p) ==
    /\ pc[p] \in {"size", "empty", "array"} /\ ~locked
    /\ pc' = [pc EXCEPT ![p] = "idle"]
    /\ Return(p, CASE pc[p] = "size" -> [t |-> "int", v |-> chans[avail].buf]
                   [] pc[p] = "empty" -> [t |-> "bool", v |-> chans[avail].buf = 0]
                   [] pc[p] = "array" -> [t |-> "seq", v |-> vals])
    /\ UNCHANGED <<bound, vals, chans, avail, locked>>

Step(p) == Start(p) \/ AddCrit(p) \/ AddSend(p) \/ RemRecv(p) \/ RemCrit(p) \/ Close(p) \/ Clear(p) \/ Observe(p)

Next == \E p \in Procs : Step(p)

Spec == Init /\ [][Next]_vars
FairSpec == Spec /\ WF_vars(Next)

----------------------------------------------------------------------------
(* Properties of the model (C04, C05) *)

Bounded == \A c \in 1..MaxChan : chans[c].buf <= Cap

\* a call that is valid on its own never panics (programs with add/close racing
\* close are excluded by construction of the program family)
NoPanic == \A p \in Procs : ~Dead(p)

\* tokens never outnumber values: buffered tokens of the current channel plus
\* tokens already taken but not yet exchanged for a value
Holders == {p \in Procs : pc[p] = "rem_crit"}
TokensLeVals == chans[avail].buf + Cardinality(Holders) <= Len(vals)

\* no reachable state is stuck: some step is enabled unless every process is done
NoStuck == AllDone \/ ENABLED Next

\* every well-formed program terminates
Termination == <>AllDone

=============================================================================
