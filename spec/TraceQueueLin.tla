---------------------------- MODULE TraceQueueLin ----------------------------
(***************************************************************************)
(* Validation of recorded queue histories against QueueLin.                 *)
(* The trace (ndjson, env TRACE) holds, in the order in which they happened *)
(* (a single atomic counter, or the total order of a controlled schedule):  *)
(*   {"e":"reset","cap":c}            a new history on a fresh queue        *)
(*   {"e":"inv","p":p,"op":o,"v":v}   process p invokes a call              *)
(*   {"e":"ret","p":p,"r":result}     the call returns (r.t = "panic" if it *)
(*                                    panicked)                             *)
(* Between events TLC may take silent Lin(p) steps.  The trace is accepted  *)
(* iff the end of the file is reachable: the driver checks that the         *)
(* invariant NotAccepted is *violated*.                                     *)
(***************************************************************************)
EXTENDS QueueLin, Json, IOUtils, TLC, FiniteSets

Trace == ndJsonDeserialize(IOEnv.TRACE)
Procs == {Trace[i].p : i \in {j \in 1..Len(Trace) : Trace[j].e = "inv"}}

VARIABLES l,       \* next event
          st,      \* abstract queue [q, closed, cap]
          pend,    \* pend[p]: [s |-> "idle"] | [s |-> "inv", c |-> call] | [s |-> "lin", r |-> result]
          nadd,    \* adds returned so far in this history
          nrem     \* removals invoked so far in this history

vars == <<l, st, pend, nadd, nrem>>

Idle == [s |-> "idle"]

Init == /\ TLCSet(1, 0)
        /\ l = 1
        /\ st = [q |-> <<>>, closed |-> FALSE, cap |-> 0]
        /\ pend = [p \in Procs |-> Idle]
        /\ nadd = 0 /\ nrem = 0

\* a new history; calls of the previous one that never returned are dropped
\* (whether calls left pending were rightly pending is judged by End, and only
\* for histories that really ended; a schedule the harness abandoned has no End)
Reset == /\ l <= Len(Trace) /\ Trace[l].e = "reset"
         /\ st' = [q |-> <<>>, closed |-> FALSE, cap |-> Trace[l].cap]
         /\ nadd' = 0 /\ nrem' = 0
         /\ pend' = [p \in Procs |-> Idle]
         /\ l' = l + 1

Inv == /\ l <= Len(Trace) /\ Trace[l].e = "inv"
       /\ LET x == Trace[l] IN
          /\ pend[x.p] = Idle
          /\ pend' = [pend EXCEPT ![x.p] = [s |-> "inv", c |-> [op |-> x.op, v |-> x.v, r |-> x.r]]]
          /\ nrem' = IF x.op = "rem" THEN nrem + 1 ELSE nrem
       /\ l' = l + 1 /\ UNCHANGED <<st, nadd>>

\* the call of p takes effect now, producing the result that p will return;
\* the result was attached to the inv event by the driver (x.r; [t |-> "missing"]
\* if the call never returned: it may still have taken effect)
InFlight == {pend[q].r.v : q \in {x \in Procs : pend[x].s = "lin" /\ pend[x].op = "rem"}}

Lin(p) == /\ pend[p].s = "inv"
          /\ LET c == pend[p].c
                 \* a call that never returned may still have taken effect: an add / close /
                 \* clear with the only result they have, a removal with whatever the queue
                 \* holds at that moment (it has claimed the head without handing it over yet)
                 r == IF c.r.t # "missing" THEN c.r
                      ELSE IF c.op \in {"add", "close", "clear"} THEN [t |-> "none"]
                      ELSE IF c.op = "rem" /\ st.q # <<>> THEN [t |-> "tokok", v |-> Head(st.q), ok |-> TRUE]
                      ELSE IF c.op = "rem" THEN [t |-> "tokok", v |-> 0, ok |-> FALSE]
                      ELSE c.r IN
             /\ CanLin(st, c, r, InFlight)
             /\ st' \in Effects(st, c)
             /\ pend' = [pend EXCEPT ![p] = [s |-> "lin", r |-> r, op |-> c.op]]
          /\ UNCHANGED <<l, nadd, nrem>>

\* back-pressure: adds returned so far exceed removals invoked so far by at
\* most the capacity (only meaningful in histories without clear)
\* when a RemoveAll returns (x.rs) the counts restart: the removals still pending
\* may claim values added afterwards
Ret == /\ l <= Len(Trace) /\ Trace[l].e = "ret"
       /\ LET x == Trace[l] IN
          /\ pend[x.p].s = "lin" /\ pend[x.p].r = x.r
          /\ pend' = [pend EXCEPT ![x.p] = Idle]
          /\ nadd' = IF x.rs THEN 0 ELSE IF pend[x.p].op = "add" THEN nadd + 1 ELSE nadd
          /\ nrem' = IF x.rs THEN Cardinality({q \in Procs : q # x.p /\ pend[q].s \in {"inv", "lin"} /\
                                                 (IF pend[q].s = "inv" THEN pend[q].c.op ELSE pend[q].op) = "rem"})
                     ELSE nrem
          /\ (pend[x.p].op = "add" /\ x.bp) => nadd + 1 - nrem <= st.cap
       /\ l' = l + 1 /\ UNCHANGED st

\* the end of a history that did not run to completion (a forced schedule whose
\* model state is stuck, a free-running program stopped by the watchdog): a
\* RemoveHead that never returned is rightly blocked only if, in some
\* explanation of the history, the queue is empty and open at the end; an
\* AddValue that never returned only if the queue is full without it
End == /\ l <= Len(Trace) /\ Trace[l].e = "end"
       /\ \A p \in Procs : IF pend[p].s = "inv"
                            THEN /\ pend[p].c.op = "rem" => (st.q = <<>> /\ ~st.closed)
                                 /\ pend[p].c.op = "add" => Len(st.q) >= st.cap
                                 /\ pend[p].c.op \in {"rem", "add"}      \* nothing else ever waits
                            ELSE IF pend[p].s = "lin"
                            THEN pend[p].op = "add" /\ Len(st.q) > st.cap   \* anything else that took effect must have returned
                            ELSE TRUE
       /\ l' = l + 1 /\ UNCHANGED <<st, pend, nadd, nrem>>

Next == Reset \/ Inv \/ Ret \/ End \/ \E p \in Procs : Lin(p)

Spec == Init /\ [][Next]_vars

\* violated <=> the whole trace is explained
NotAccepted == l <= Len(Trace)

\* diagnostic: deepest event reached (needs -workers 1)
HighWater == TLCSet(1, IF TLCGet(1) < l THEN l ELSE TLCGet(1))
\* evaluated only when the search ends without reaching the end of the trace
ReportHighWater == PrintT(<<"HIGHWATER", TLCGet(1)>>)
=============================================================================
