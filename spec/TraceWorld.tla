----------------------------- MODULE TraceWorld -----------------------------
(***************************************************************************)
(* Trace validation against World.tla.  The trace (ndjson, path in the      *)
(* environment variable TRACE) was recorded from the real library by the    *)
(* harness: one line per public call at its return, with the arguments,     *)
(* the result or panic, and the projection of every live object.            *)
(*                                                                          *)
(*   reset line : the world is set to the logged one (start of a history)   *)
(*   call line  : must be a step of World: Accepts(world, event, outcome)   *)
(*                and the logged world must satisfy the type invariants     *)
(*   skip line  : the harness could not perform the step; stuttering        *)
(*                                                                          *)
(* A rejected line does not stop validation: it is reported                 *)
(* (<<"REJECT", line number>>) and validation continues from the logged     *)
(* world, so every line of the trace is judged.                             *)
(***************************************************************************)
EXTENDS World, Json, IOUtils

Trace == ndJsonDeserialize(IOEnv.TRACE)

VARIABLES l, world

Ev(x) == [k |-> x.k, m |-> x.m, self |-> x.self, args |-> x.args]
Obs(x) == [p |-> x.p, r |-> x.r, w |-> x.w]

\* a world rejected earlier (an object violating its type invariant, views
\* that disagree) has been reported at the line that produced it; calls made
\* in such a world are not judged (the specification says nothing about them)
Sane(w) == WorldOK(w) /\ \A i \in 1..Len(w) : DOMAIN w[i] \subseteq {"kind", "s", "c", "cap", "closed", "slot"}
Good(x) == /\ x.pc # "timeout"               \* every call returns
           /\ Sane(x.w)
           /\ (Sane(world) => Accepts(world, Ev(x), Obs(x)))

TraceInit == l = 1 /\ world = <<>>

TraceNext ==
    /\ l <= Len(Trace)
    /\ l' = l + 1
    /\ LET x == Trace[l] IN
       CASE x.t = "reset" -> world' = x.w
         [] x.t = "skip"  -> world' = world
         [] x.t = "call"  -> /\ world' = x.w
                             /\ IF Good(x) THEN TRUE ELSE PrintT(<<"REJECT", l>>)

TraceSpec == TraceInit /\ [][TraceNext]_<<l, world>>

\* all lines consumed (checked by the driver from the reported depth as well)
Consumed == TLCGet("stats").diameter = Len(Trace) + 1
=============================================================================
