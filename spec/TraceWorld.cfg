SPECIFICATION TraceSpec
CHECK_DEADLOCK FALSE
POSTCONDITION Consumed
