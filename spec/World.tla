------------------------------- MODULE World -------------------------------
(***************************************************************************)
(* Sequential specification of the collection classes of                    *)
(* craterdog/go-collection-framework (v4): a heap ("world") of objects and  *)
(* one outcome relation per public constructor / method / class function.   *)
(*                                                                          *)
(* The world is a sequence of objects; an object's identity is its index.   *)
(* Objects are records [kind, s, ...].  Element values are abstract tokens  *)
(* (naturals whose order is the natural order of the concrete values the    *)
(* harness codec maps them to; token 0 is the zero value of the element     *)
(* type).  An association token is a pair <<key, value>>.                   *)
(*                                                                          *)
(* Outs(w, e) is the set of outcomes the properties allow for the call e    *)
(* (a record [op, self, args]) in world w.  An outcome is                   *)
(*    [p |-> panicked, r |-> result, w |-> world afterwards].               *)
(* Where a property is silent the set has several members; where the        *)
(* choice is too large to enumerate (shuffle, sort with an arbitrary        *)
(* ranker, Go map iteration order) Accepts(w, e, o) is a predicate and      *)
(* Gen(w, e) a representative subset used for model checking.               *)
(*                                                                          *)
(* The module is used three ways:                                           *)
(*   MCWorld*   - TLC explores Next and exports every edge for replay       *)
(*   TraceWorld - validates traces recorded from the real library           *)
(*   as the sequential reference for the queue/pipe models                  *)
(***************************************************************************)
EXTENDS Integers, Sequences, FiniteSets, TLC

----------------------------------------------------------------------------
(* Generic helpers *)

Z == 0                                   \* the zero token

Range(s) == {s[i] : i \in DOMAIN s}
Min2(a, b) == IF a < b THEN a ELSE b
Max2(a, b) == IF a > b THEN a ELSE b

Norm(n, i) == IF i > 0 THEN i ELSE i + n + 1
Valid(n, i) == n > 0 /\ i # 0 /\ -n <= i /\ i <= n

Sub(s, a, b) == IF a > b THEN <<>> ELSE SubSeq(s, a, b)
CutRange(s, a, b) == Sub(s, 1, a - 1) \o Sub(s, b + 1, Len(s))
InsertAt(s, k, vs) == Sub(s, 1, k) \o vs \o Sub(s, k + 1, Len(s))
Overwrite(s, a, vs) == [i \in 1..Len(s) |->
                          IF i >= a /\ i < a + Len(vs) THEN vs[i - a + 1] ELSE s[i]]
Rev(s) == [i \in 1..Len(s) |-> s[Len(s) + 1 - i]]
Zeros(n) == [i \in 1..n |-> Z]

FirstIndex(s, P(_)) ==
    IF \E i \in 1..Len(s) : P(s[i])
    THEN CHOOSE i \in 1..Len(s) : P(s[i]) /\ \A j \in 1..(i - 1) : ~P(s[j])
    ELSE 0
IndexOf(s, v) == LET P(x) == x = v IN FirstIndex(s, P)

CountOf(s, x) == Cardinality({i \in DOMAIN s : s[i] = x})
IsPerm(a, b) == /\ Len(a) = Len(b)
                /\ \A x \in Range(a) \cup Range(b) : CountOf(a, x) = CountOf(b, x)

Filter(s, P(_)) ==
    LET F[i \in 0..Len(s)] ==
          IF i = 0 THEN <<>> ELSE IF P(s[i]) THEN Append(F[i - 1], s[i]) ELSE F[i - 1]
    IN F[Len(s)]

----------------------------------------------------------------------------
(* Ranks.  A "ranker" is named.  1 = Lesser, 2 = Equal, 3 = Greater.        *)

LT == 1
EQ == 2
GT == 3

CmpInt(a, b) == IF a < b THEN LT ELSE IF a > b THEN GT ELSE EQ
Mirror(r) == 4 - r

\* Rankers apply to integer tokens only; sequences of association tokens
\* (catalogs) are ordered through their key sequence (keys are unique there).
Rank(name, a, b) ==
    CASE name = "nat"     -> CmpInt(a, b)
      [] name = "rev"     -> CmpInt(b, a)
      [] name = "coarse"  -> CmpInt(a \div 2, b \div 2)
      [] name = "const"   -> EQ
      [] name = "lesser"  -> LT
      [] name = "greater" -> GT
      [] name = "odd"     -> \* inconsistent: parity decides, not antisymmetric
                             IF (a + b) % 2 = 1 THEN LT ELSE GT

Preorders == {"nat", "rev", "coarse", "const"}
Rankers == Preorders \cup {"lesser", "greater", "odd"}

Ascending(s, name) == \A i \in 1..(Len(s) - 1) : Rank(name, s[i], s[i + 1]) # GT
StrictlyAscending(s, name) == \A i \in 1..(Len(s) - 1) : Rank(name, s[i], s[i + 1]) = LT

\* insertion sort by a preorder, stable; used as the canonical sorted form
RECURSIVE InsertSorted(_, _, _)
InsertSorted(s, x, name) ==
    IF s = <<>> THEN <<x>>
    ELSE IF Rank(name, x, Head(s)) = LT THEN <<x>> \o s
    ELSE <<Head(s)>> \o InsertSorted(Tail(s), x, name)
SortBy(s, name) ==
    LET F[i \in 0..Len(s)] == IF i = 0 THEN <<>> ELSE InsertSorted(F[i - 1], s[i], name)
    IN F[Len(s)]

----------------------------------------------------------------------------
(* Results *)

None == [t |-> "none"]
TokR(v) == [t |-> "tok", v |-> v]
IntR(n) == [t |-> "int", v |-> n]
BoolR(b) == [t |-> "bool", v |-> b]
ObjR(id) == [t |-> "obj", v |-> id]
TokOkR(v, ok) == [t |-> "tokok", v |-> v, ok |-> ok]

----------------------------------------------------------------------------
(* Objects *)

SeqKinds == {"Array", "List", "Seq", "GoArray", "Set", "Stack", "Queue", "Catalog"}

MkSeq(kind, s) == [kind |-> kind, s |-> s]
MkSet(s, c) == [kind |-> "Set", s |-> s, c |-> c]
MkStack(s, cap) == [kind |-> "Stack", s |-> s, cap |-> cap]
MkQueue(s, cap, closed) == [kind |-> "Queue", s |-> s, cap |-> cap, closed |-> closed]
MkIter(s, slot) == [kind |-> "Iter", s |-> s, slot |-> slot]
MkCatalog(s) == [kind |-> "Catalog", s |-> s]
MkMap(kind, s) == [kind |-> kind, s |-> s]        \* kind "Map" or "GoMap"; s sorted by key

DefaultCap == 16

With(o, s) == [o EXCEPT !.s = s]

----------------------------------------------------------------------------
(* Outcomes *)

Ret(r, w) == [p |-> FALSE, r |-> r, w |-> w]
Pan(w) == [p |-> TRUE, r |-> None, w |-> w]

\* self's object replaced
Upd(w, id, o) == [w EXCEPT ![id] = o]
\* result is a new object
New(w, o) == Ret(ObjR(Len(w) + 1), Append(w, o))

----------------------------------------------------------------------------
(* Map helpers: maps are sequences of <<k, v>> pairs; catalogs keep         *)
(* insertion order, Maps/GoMaps are kept sorted by key (canonical form).    *)

Keys(ps) == [i \in 1..Len(ps) |-> ps[i][1]]
HasKey(ps, k) == \E i \in 1..Len(ps) : ps[i][1] = k
KeyIndex(ps, k) == LET P(p) == p[1] = k IN FirstIndex(ps, P)
Lookup(ps, k) == IF HasKey(ps, k) THEN ps[KeyIndex(ps, k)][2] ELSE Z
\* catalog update: replace in place or append
CatPut(ps, k, v) ==
    IF HasKey(ps, k) THEN [i \in 1..Len(ps) |-> IF ps[i][1] = k THEN <<k, v>> ELSE ps[i]]
    ELSE Append(ps, <<k, v>>)
CatDel(ps, k) == LET P(p) == p[1] # k IN Filter(ps, P)
CatPutAll(ps, qs) ==
    LET F[i \in 0..Len(qs)] == IF i = 0 THEN ps ELSE CatPut(F[i - 1], qs[i][1], qs[i][2])
    IN F[Len(qs)]
\* pairs with unique keys, re-ordered by a ranker on the keys
SortPairsBy(ps, name) == LET ks == SortBy(Keys(ps), name) IN
                         [i \in 1..Len(ks) |-> <<ks[i], Lookup(ps, ks[i])>>]
MapPut(ps, k, v) == SortPairsBy(CatPut(ps, k, v), "nat")
MapOf(qs) == SortPairsBy(CatPutAll(<<>>, qs), "nat")
NoDupKeys(ps) == \A i, j \in 1..Len(ps) : ps[i][1] = ps[j][1] => i = j

\* Association objects held by a Catalog are shared with every sequence that
\* copied them out (AsArray, iterators, lists built from the catalog): the
\* value seen through such a copy is live, by design (AssociationLike.SetValue
\* is the documented in-place update).  Such copies are therefore projected
\* with the value masked; membership, order and keys are what they fix.
\*
\* Every *token* is an integer (TLC cannot compare an integer with a tuple):
\* an association token is the code ACode(k, v); the nil association is Z.
\* Catalogs, Maps and Go maps keep their associations as a sequence of
\* <<key, value>> pairs in their own field s (structure, not tokens).
Masked == -1
ACode(k, v) == 1000 + 32 * k + (v + 1)         \* v in -1..30
AKey(t) == (t - 1000) \div 32
AVal(t) == ((t - 1000) % 32) - 1
Codes(ps) == [i \in 1..Len(ps) |-> ACode(ps[i][1], ps[i][2])]
Mask(ps) == [i \in 1..Len(ps) |-> ACode(ps[i][1], Masked)]
IsAssocKind(o) == o.kind \in {"Catalog", "Map", "GoMap"}
\* what a named ranker looks at: the token itself, or the key of an association token
KeyTok(t) == IF t >= 1000 THEN AKey(t) ELSE t
KeyToks(ts) == [i \in 1..Len(ts) |-> KeyTok(ts[i])]
\* what a pointer-copying consumer sees of an object (a token sequence)
View(o) == IF o.kind = "Catalog" THEN Mask(o.s) ELSE IF IsAssocKind(o) THEN Codes(o.s) ELSE o.s
\* what a consumer of plain tokens sees
Elems(o) == o.s
\* what a value-reading consumer of associations sees (pairs)
PairsOf(o) == IF IsAssocKind(o) THEN o.s ELSE [i \in 1..Len(o.s) |-> <<AKey(o.s[i]), AVal(o.s[i])>>]

----------------------------------------------------------------------------
(* Set helpers *)

SetHas(s, c, v) == \E i \in 1..Len(s) : Rank(c, s[i], v) = EQ
SetIndex(s, c, v) == LET P(x) == Rank(c, x, v) = EQ IN FirstIndex(s, P)
SetAdd(s, c, v) == IF SetHas(s, c, v) THEN s ELSE InsertSorted(s, v, c)
SetDel(s, c, v) == LET P(x) == Rank(c, x, v) # EQ IN Filter(s, P)
SetAddAll(s, c, vs) ==
    LET F[i \in 0..Len(vs)] == IF i = 0 THEN s ELSE SetAdd(F[i - 1], c, vs[i]) IN F[Len(vs)]
SetDelAll(s, c, vs) ==
    LET F[i \in 0..Len(vs)] == IF i = 0 THEN s ELSE SetDel(F[i - 1], c, vs[i]) IN F[Len(vs)]

----------------------------------------------------------------------------
(* The outcome relation.                                                    *)
(* e = [k |-> kind, m |-> method, self |-> object id or 0, args |-> tuple]  *)
(* Constructors and class functions have self = 0.  Operands that are       *)
(* sequences / arrays / maps are passed as object ids and are read from the *)
(* world *before* the call (w), also when they alias self.                  *)

\* --- client-owned Go arrays and maps (C18) --------------------------------
OutsGo(w, e) ==
    LET a == e.args  o == w[e.self] IN
    CASE e.k = "GoArray" /\ e.m = "New"    -> {New(w, MkSeq("GoArray", a[1]))}
      [] e.k = "GoArray" /\ e.m = "NewNil" -> {New(w, MkSeq("GoArray", <<>>))}    \* the nil slice is an empty array
      [] e.k = "GoMap"   /\ e.m = "NewNil" -> {New(w, MkMap("GoMap", <<>>))}      \* the nil map is an empty map
      [] e.k = "GoArray" /\ e.m = "Poke"   -> {Ret(None, Upd(w, e.self, With(o, [o.s EXCEPT ![a[1]] = a[2]])))}
      [] e.k = "GoMap"   /\ e.m = "New"    -> {New(w, MkMap("GoMap", MapOf(a[1])))}
      [] e.k = "GoMap"   /\ e.m = "Poke"   -> {Ret(None, Upd(w, e.self, With(o, MapPut(o.s, a[1], a[2]))))}
      [] e.k = "GoMap"   /\ e.m = "Delete" -> {Ret(None, Upd(w, e.self, With(o, CatDel(o.s, a[1]))))}

\* --- what every Sequential[E] offers --------------------------------------
OutsSequential(w, e) ==
    LET o == w[e.self] IN
    CASE e.m = "AsArray"     -> {New(w, MkSeq("GoArray", View(o)))}
      [] e.m = "GetIterator" -> {New(w, MkIter(View(o), 0))}
      [] e.m = "GetSize"     -> {Ret(IntR(Len(o.s)), w)}
      [] e.m = "IsEmpty"     -> {Ret(BoolR(Len(o.s) = 0), w)}

\* --- Accessible[E]: GetValue, GetValues -----------------------------------
OutsAccessible(w, e) ==
    LET o == w[e.self]  s == o.s  n == Len(s)  a == e.args IN
    CASE e.m = "GetValue" ->
           IF Valid(n, a[1]) THEN {Ret(TokR(s[Norm(n, a[1])]), w)} ELSE {Pan(w)}
      [] e.m = "GetValues" ->
           IF ~Valid(n, a[1]) \/ ~Valid(n, a[2]) THEN {Pan(w)}
           ELSE IF Norm(n, a[1]) > Norm(n, a[2])
                THEN {Pan(w), New(w, MkSeq("Seq", <<>>))}          \* silent: either
                ELSE {New(w, MkSeq("Seq", Sub(s, Norm(n, a[1]), Norm(n, a[2]))))}

\* --- Updatable[E]: SetValue, SetValues ------------------------------------
OutsUpdatable(w, e) ==
    LET o == w[e.self]  s == o.s  n == Len(s)  a == e.args IN
    CASE e.m = "SetValue" ->
           IF Valid(n, a[1])
           THEN {Ret(None, Upd(w, e.self, With(o, [s EXCEPT ![Norm(n, a[1])] = a[2]])))}
           ELSE {Pan(w)}
      [] e.m = "SetValues" ->
           LET vs == View(w[a[2]])  k == Len(vs) IN
           IF k = 0 THEN {Pan(w), Ret(None, w)}                    \* silent: either
           ELSE IF ~Valid(n, a[1]) \/ Norm(n, a[1]) + k - 1 > n THEN {Pan(w)}
           ELSE {Ret(None, Upd(w, e.self, With(o, Overwrite(s, Norm(n, a[1]), vs))))}

\* --- Sortable[E], deterministic members ------------------------------------
OutsSortable(w, e) ==
    LET o == w[e.self]  s == o.s IN
    CASE e.m = "SortValues"    -> {Ret(None, Upd(w, e.self, With(o,
                                      IF o.kind = "Catalog" THEN SortPairsBy(s, "nat") ELSE SortBy(s, "nat"))))}
      [] e.m = "ReverseValues" -> {Ret(None, Upd(w, e.self, With(o, Rev(s))))}

\* --- Expandable[E] (List) ---------------------------------------------------
OutsExpandable(w, e) ==
    LET o == w[e.self]  s == o.s  n == Len(s)  a == e.args IN
    CASE e.m = "InsertValue" ->
           IF a[1] > n THEN {Pan(w)}
           ELSE {Ret(None, Upd(w, e.self, With(o, InsertAt(s, a[1], <<a[2]>>))))}
      [] e.m = "InsertValues" ->
           IF a[1] > n THEN {Pan(w)}
           ELSE {Ret(None, Upd(w, e.self, With(o, InsertAt(s, a[1], View(w[a[2]])))))}
      [] e.m = "AppendValue" -> {Ret(None, Upd(w, e.self, With(o, Append(s, a[1]))))}
      [] e.m = "AppendValues" -> {Ret(None, Upd(w, e.self, With(o, s \o View(w[a[1]]))))}
      [] e.m = "RemoveValue" ->
           IF Valid(n, a[1])
           THEN {Ret(TokR(s[Norm(n, a[1])]),
                     Upd(w, e.self, With(o, CutRange(s, Norm(n, a[1]), Norm(n, a[1])))))}
           ELSE {Pan(w)}
      [] e.m = "RemoveValues" ->
           IF ~Valid(n, a[1]) \/ ~Valid(n, a[2]) THEN {Pan(w)}
           ELSE LET f == Norm(n, a[1])  l == Norm(n, a[2]) IN
                IF f > l THEN {Pan(w), New(w, MkSeq("Seq", <<>>))}  \* silent: either
                ELSE {[p |-> FALSE, r |-> ObjR(Len(w) + 1),
                       w |-> Append(Upd(w, e.self, With(o, CutRange(s, f, l))),
                                    MkSeq("Seq", Sub(s, f, l)))]}
      [] e.m = "RemoveAll" -> {Ret(None, Upd(w, e.self, With(o, <<>>)))}

\* --- Searchable[E] on a List (structural equality of tokens) ---------------
OutsSearchList(w, e) ==
    LET o == w[e.self]  s == o.s  a == e.args IN
    CASE e.m = "GetIndex"      -> {Ret(IntR(IndexOf(s, a[1])), w)}
      [] e.m = "ContainsValue" -> {Ret(BoolR(IndexOf(s, a[1]) > 0), w)}
      [] e.m = "ContainsAny"   -> {Ret(BoolR(\E x \in Range(View(w[a[1]])) : IndexOf(s, x) > 0), w)}
      [] e.m = "ContainsAll"   -> {Ret(BoolR(\A x \in Range(View(w[a[1]])) : IndexOf(s, x) > 0), w)}

\* --- Iterator (C17) ---------------------------------------------------------
OutsIter(w, e) ==
    LET o == w[e.self]  s == o.s  n == Len(s)  k == o.slot  a == e.args
        Move(j) == Upd(w, e.self, [o EXCEPT !.slot = j]) IN
    CASE e.m = "HasNext"     -> {Ret(BoolR(k < n), w)}
      [] e.m = "HasPrevious" -> {Ret(BoolR(k > 0), w)}
      [] e.m = "GetNext"     -> IF k < n THEN {Ret(TokR(s[k + 1]), Move(k + 1))} ELSE {Ret(TokR(Z), w)}
      [] e.m = "GetPrevious" -> IF k > 0 THEN {Ret(TokR(s[k]), Move(k - 1))} ELSE {Ret(TokR(Z), w)}
      [] e.m = "ToStart"     -> {Ret(None, Move(0))}
      [] e.m = "ToEnd"       -> {Ret(None, Move(n))}
      [] e.m = "ToSlot"      -> LET c == Max2(-n, Min2(n, a[1])) IN
                                {Ret(None, Move(IF c < 0 THEN c + n + 1 ELSE c))}
      [] e.m = "GetSlot"     -> {Ret(IntR(k), w)}
      [] e.m = "GetSize"     -> {Ret(IntR(n), w)}
      [] e.m = "IsEmpty"     -> {Ret(BoolR(n = 0), w)}

\* --- Set (C02, C15) ---------------------------------------------------------
OutsSet(w, e) ==
    LET o == w[e.self]  s == o.s  c == o.c  a == e.args
        Put(t) == Upd(w, e.self, With(o, t)) IN
    CASE e.m = "AddValue"      -> {Ret(None, Put(SetAdd(s, c, a[1])))}
      [] e.m = "AddValues"     -> {Ret(None, Put(SetAddAll(s, c, Elems(w[a[1]]))))}
      [] e.m = "RemoveValue"   -> {Ret(None, Put(SetDel(s, c, a[1])))}
      [] e.m = "RemoveValues"  -> {Ret(None, Put(SetDelAll(s, c, Elems(w[a[1]]))))}
      [] e.m = "RemoveAll"     -> {Ret(None, Put(<<>>))}
      [] e.m = "GetIndex"      -> {Ret(IntR(SetIndex(s, c, a[1])), w)}
      [] e.m = "ContainsValue" -> {Ret(BoolR(SetHas(s, c, a[1])), w)}
      [] e.m = "ContainsAny"   -> {Ret(BoolR(\E x \in Range(Elems(w[a[1]])) : SetHas(s, c, x)), w)}
      [] e.m = "ContainsAll"   -> {Ret(BoolR(\A x \in Range(Elems(w[a[1]])) : SetHas(s, c, x)), w)}
      [] e.m = "GetCollator"   -> {Ret([t |-> "name", v |-> c], w)}

\* class functions; both operands are Sets; the result carries the first's collator
OutsSetAlgebra(w, e) ==
    LET A == w[e.args[1]]  B == w[e.args[2]]  c == A.c
        InB(x) == SetHas(B.s, c, x)
        NotInB(x) == ~SetHas(B.s, c, x)
        NotInA(x) == ~SetHas(A.s, c, x)
        and == Filter(A.s, InB)
        sans == Filter(A.s, NotInB)
        snas == SetAddAll(<<>>, c, Filter(B.s, NotInA))
        or == SetAddAll(A.s, c, B.s) IN
    CASE e.m = "And"  -> {New(w, MkSet(and, c))}
      [] e.m = "Or"   -> {New(w, MkSet(or, c))}
      [] e.m = "Sans" -> {New(w, MkSet(sans, c))}
      [] e.m = "Xor"  -> {New(w, MkSet(SetAddAll(sans, c, snas), c))}

\* --- Stack (C13) ------------------------------------------------------------
OutsStack(w, e) ==
    LET o == w[e.self]  s == o.s  a == e.args
        Put(t) == Upd(w, e.self, With(o, t)) IN
    CASE e.m = "AddValue"    -> IF Len(s) >= o.cap THEN {Pan(w)} ELSE {Ret(None, Put(<<a[1]>> \o s))}
      [] e.m = "RemoveTop"   -> IF s = <<>> THEN {Pan(w)} ELSE {Ret(TokR(Head(s)), Put(Tail(s)))}
      [] e.m = "RemoveAll"   -> {Ret(None, Put(<<>>))}
      [] e.m = "GetCapacity" -> {Ret(IntR(o.cap), w)}

\* --- Queue, quiescent fragment (one caller; the harness never makes a call
\*     that would block, nor adds to / closes a closed queue) ------------------
OutsQueueSeq(w, e) ==
    LET o == w[e.self]  s == o.s  a == e.args
        Put(t) == Upd(w, e.self, With(o, t)) IN
    CASE e.m = "AddValue"    -> {Ret(None, Put(Append(s, a[1])))}
      [] e.m = "RemoveHead"  -> IF s # <<>> THEN {Ret(TokOkR(Head(s), TRUE), Put(Tail(s)))}
                                ELSE {Ret(TokOkR(Z, FALSE), w)}
      [] e.m = "CloseQueue"  -> {Ret(None, Upd(w, e.self, [o EXCEPT !.closed = TRUE]))}
      [] e.m = "RemoveAll"   -> {Ret(None, Put(<<>>))}
      [] e.m = "GetCapacity" -> {Ret(IntR(o.cap), w)}

\* --- Associative[K,V] on Catalog (ordered) and Map (canonical sorted) -------
OutsAssoc(w, e) ==
    LET o == w[e.self]  ps == o.s  a == e.args
        ordered == o.kind = "Catalog"
        Put(t) == Upd(w, e.self, With(o, t))
        ks == Elems(w[a[1]])                         \* for the *Values(keys) methods
        \* left fold of RemoveValue over ks, collecting results
        RF[i \in 0..Len(ks)] ==
            IF i = 0 THEN [ps |-> ps, out |-> <<>>]
            ELSE LET prev == RF[i - 1] IN          \* one evaluation per level (three would be 3^n)
                 [ps |-> CatDel(prev.ps, ks[i]),
                  out |-> Append(prev.out, Lookup(prev.ps, ks[i]))] IN
    CASE e.m = "GetValue"     -> {Ret(TokR(Lookup(ps, a[1])), w)}
      [] e.m = "SetValue"     -> {Ret(None, Put(IF ordered THEN CatPut(ps, a[1], a[2]) ELSE MapPut(ps, a[1], a[2])))}
      [] e.m = "RemoveValue"  -> {Ret(TokR(Lookup(ps, a[1])), Put(CatDel(ps, a[1])))}
      [] e.m = "RemoveAll"    -> {Ret(None, Put(<<>>))}
      [] e.m = "GetValues"    -> {New(w, MkSeq("Seq", [i \in 1..Len(ks) |-> Lookup(ps, ks[i])]))}
      [] e.m = "RemoveValues" -> {[p |-> FALSE, r |-> ObjR(Len(w) + 1),
                                   w |-> Append(Put(RF[Len(ks)].ps), MkSeq("Seq", RF[Len(ks)].out))]}
      [] e.m = "GetKeys"      -> {New(w, MkSeq("Seq", Keys(ps)))}     \* Catalog only (Map: relational)

\* --- constructors and class functions (self = 0) ----------------------------
CapChoices(n) == {c \in {DefaultCap, n} : c >= n /\ c >= 1}

OutsClass(w, e) ==
    LET a == e.args IN
    CASE e.k = "Array" /\ e.m = "Make"             -> {New(w, MkSeq("Array", Zeros(a[1])))}
      [] e.k = "Array" /\ e.m \in {"MakeFromArray", "MakeFromSequence"}
                                                   -> {New(w, MkSeq("Array", View(w[a[1]])))}
      [] e.k = "List" /\ e.m = "Make"              -> {New(w, MkSeq("List", <<>>))}
      [] e.k = "List" /\ e.m \in {"MakeFromArray", "MakeFromSequence"}
                                                   -> {New(w, MkSeq("List", View(w[a[1]])))}
      [] e.k = "List" /\ e.m = "Concatenate"       -> {New(w, MkSeq("List", View(w[a[1]]) \o View(w[a[2]])))}
      [] e.k = "Set" /\ e.m = "Make"               -> {New(w, MkSet(<<>>, "nat"))}
      [] e.k = "Set" /\ e.m = "MakeWithCollator"   -> {New(w, MkSet(<<>>, a[1]))}
      [] e.k = "Set" /\ e.m \in {"MakeFromArray", "MakeFromSequence"}
                                                   -> {New(w, MkSet(SetAddAll(<<>>, "nat", Elems(w[a[1]])), "nat"))}
      [] e.k = "Set" /\ e.m \in {"And", "Or", "Sans", "Xor"} -> OutsSetAlgebra(w, e)
      [] e.k = "Stack" /\ e.m = "Make"             -> {New(w, MkStack(<<>>, DefaultCap))}
      [] e.k = "Stack" /\ e.m = "MakeWithCapacity" -> IF a[1] = 0 THEN {Pan(w)} ELSE {New(w, MkStack(<<>>, a[1]))}
      [] e.k = "Stack" /\ e.m \in {"MakeFromArray", "MakeFromSequence"} ->
             \* may panic, or must size the capacity: never more values than capacity
             {Pan(w)} \cup {New(w, MkStack(Elems(w[a[1]]), c)) : c \in CapChoices(Len(Elems(w[a[1]])))}
      [] e.k = "Queue" /\ e.m = "Make"             -> {New(w, MkQueue(<<>>, DefaultCap, FALSE))}
      [] e.k = "Queue" /\ e.m = "MakeWithCapacity" -> {New(w, MkQueue(<<>>, IF a[1] = 0 THEN DefaultCap ELSE a[1], FALSE))}
      [] e.k = "Queue" /\ e.m \in {"MakeFromArray", "MakeFromSequence"} ->
             {New(w, MkQueue(Elems(w[a[1]]), c, FALSE)) : c \in CapChoices(Len(Elems(w[a[1]])))}
      [] e.k = "Catalog" /\ e.m = "Make"           -> {New(w, MkCatalog(<<>>))}
      [] e.k = "Catalog" /\ e.m \in {"MakeFromArray", "MakeFromSequence"}
                                                   -> {New(w, MkCatalog(CatPutAll(<<>>, PairsOf(w[a[1]]))))}
      [] e.k = "Catalog" /\ e.m = "Merge"          -> {New(w, MkCatalog(CatPutAll(w[a[1]].s, w[a[2]].s)))}
      [] e.k = "Catalog" /\ e.m = "Extract" ->
             LET c == w[a[1]].s  ks == Elems(w[a[2]])
                 F[i \in 0..Len(ks)] ==
                     IF i = 0 THEN <<>>
                     ELSE LET prev == F[i - 1] IN           \* one evaluation per level
                          IF HasKey(c, ks[i]) /\ ~HasKey(prev, ks[i])
                          THEN Append(prev, <<ks[i], Lookup(c, ks[i])>>) ELSE prev IN
             {New(w, MkCatalog(F[Len(ks)]))}
      [] e.k = "Map" /\ e.m = "Make"               -> {New(w, MkMap("Map", <<>>))}
      [] e.k = "Map" /\ e.m \in {"MakeFromArray", "MakeFromSequence", "MakeFromMap"}
                                                   -> {New(w, MkMap("Map", MapOf(PairsOf(w[a[1]]))))}

\* --- dispatch ---------------------------------------------------------------
SequentialM == {"AsArray", "GetIterator", "GetSize", "IsEmpty"}
AccessibleM == {"GetValue", "GetValues"}
UpdatableM == {"SetValue", "SetValues"}
SortableDetM == {"SortValues", "ReverseValues"}
SortableRelM == {"SortValuesWithRanker", "ShuffleValues"}
ExpandableM == {"InsertValue", "InsertValues", "AppendValue", "AppendValues",
                "RemoveValue", "RemoveValues", "RemoveAll"}
SearchableM == {"GetIndex", "ContainsValue", "ContainsAny", "ContainsAll"}
PlainSeqK == {"Array", "List", "Seq"}

\* operations whose allowed outcomes are given by a predicate, not a set
Relational(e) ==
    \/ e.m \in SortableRelM
    \/ e.k = "Catalog" /\ e.m = "MakeFromMap"
    \/ e.k = "Map" /\ e.m \in {"GetKeys", "AsArray", "GetIterator"}

Outs(w, e) ==
    IF e.self = 0 THEN (IF e.k \in {"GoArray", "GoMap"} THEN OutsGo(w, e) ELSE OutsClass(w, e))
    ELSE
    CASE e.k \in {"GoArray", "GoMap"} -> OutsGo(w, e)
      [] e.k = "Iter" -> OutsIter(w, e)
      [] e.k \in PlainSeqK /\ e.m \in SequentialM -> OutsSequential(w, e)
      [] e.k \in PlainSeqK /\ e.m \in AccessibleM -> OutsAccessible(w, e)
      [] e.k \in PlainSeqK /\ e.m \in UpdatableM -> OutsUpdatable(w, e)
      [] e.k \in PlainSeqK /\ e.m \in SortableDetM -> OutsSortable(w, e)
      [] e.k = "List" /\ e.m \in ExpandableM -> OutsExpandable(w, e)
      [] e.k = "List" /\ e.m \in SearchableM -> OutsSearchList(w, e)
      [] e.k = "Set" /\ e.m \in SequentialM -> OutsSequential(w, e)
      [] e.k = "Set" /\ e.m \in AccessibleM -> OutsAccessible(w, e)
      [] e.k = "Set" -> OutsSet(w, e)
      [] e.k = "Stack" /\ e.m \in SequentialM -> OutsSequential(w, e)
      [] e.k = "Stack" -> OutsStack(w, e)
      [] e.k = "Queue" /\ e.m \in SequentialM -> OutsSequential(w, e)
      [] e.k = "Queue" -> OutsQueueSeq(w, e)
      [] e.k \in {"Catalog", "Map"} /\ e.m \in {"GetSize", "IsEmpty"} -> OutsSequential(w, e)
      [] e.k = "Catalog" /\ e.m \in SequentialM -> OutsSequential(w, e)
      [] e.k = "Catalog" /\ e.m \in SortableDetM -> OutsSortable(w, e)
      [] e.k \in {"Catalog", "Map"} -> OutsAssoc(w, e)

\* --- relational operations: predicate for validation ------------------------
\* the post-world differs from w only in object id, which keeps every field but s
OnlySeqOf(w, w2, id) == /\ Len(w2) = Len(w)
                        /\ w2 = Upd(w, id, With(w[id], w2[id].s))
\* the post-world is w plus one new object
OneNew(w, w2) == Len(w2) = Len(w) + 1 /\ SubSeq(w2, 1, Len(w)) = w

AcceptsRel(w, e, o) ==
    IF o.p THEN FALSE                                  \* none of these may panic
    ELSE
    CASE e.m = "ShuffleValues" ->
           /\ o.r = None /\ OnlySeqOf(w, o.w, e.self)
           /\ IsPerm(o.w[e.self].s, w[e.self].s)
      [] e.m = "SortValuesWithRanker" ->
           /\ o.r = None /\ OnlySeqOf(w, o.w, e.self)
           /\ IsPerm(o.w[e.self].s, w[e.self].s)
           /\ e.args[1] \in Preorders =>
                \* a ranker looks at the token, or at the key of an association
                Ascending(IF e.k = "Catalog" THEN Keys(o.w[e.self].s) ELSE KeyToks(o.w[e.self].s), e.args[1])
      [] e.k = "Catalog" /\ e.m = "MakeFromMap" ->
           /\ o.r = ObjR(Len(w) + 1) /\ OneNew(w, o.w)
           /\ LET t == o.w[Len(w) + 1] IN t = MkCatalog(t.s) /\ IsPerm(t.s, w[e.args[1]].s)
      [] e.k = "Map" /\ e.m \in {"GetKeys", "AsArray", "GetIterator"} ->
           /\ o.r = ObjR(Len(w) + 1) /\ OneNew(w, o.w)
           /\ LET t == o.w[Len(w) + 1]
                  want == IF e.m = "GetKeys" THEN Keys(w[e.self].s) ELSE Codes(w[e.self].s) IN
              /\ IsPerm(t.s, want)
              /\ t = (IF e.m = "GetKeys" THEN MkSeq("Seq", t.s)
                      ELSE IF e.m = "AsArray" THEN MkSeq("GoArray", t.s) ELSE MkIter(t.s, 0))

Accepts(w, e, o) == IF Relational(e) THEN AcceptsRel(w, e, o) ELSE o \in Outs(w, e)

\* --- relational operations: representative outcomes for model checking ------
Gen(w, e) ==
    IF ~Relational(e) THEN Outs(w, e)
    ELSE
    LET o == w[e.self] IN
    CASE e.m = "ShuffleValues" -> {Ret(None, Upd(w, e.self, With(o, t))) : t \in {o.s, Rev(o.s)}}
      [] e.m = "SortValuesWithRanker" ->
           {Ret(None, Upd(w, e.self, With(o,
                 IF e.args[1] \notin Preorders THEN o.s
                 ELSE IF e.k = "Catalog" THEN SortPairsBy(o.s, e.args[1]) ELSE SortBy(o.s, e.args[1]))))}
      [] e.k = "Catalog" /\ e.m = "MakeFromMap" -> {New(w, MkCatalog(w[e.args[1]].s))}
      [] e.k = "Map" /\ e.m = "GetKeys" -> {New(w, MkSeq("Seq", Keys(o.s)))}
      [] e.k = "Map" /\ e.m = "AsArray" -> {New(w, MkSeq("GoArray", Codes(o.s)))}
      [] e.k = "Map" /\ e.m = "GetIterator" -> {New(w, MkIter(Codes(o.s), 0))}

----------------------------------------------------------------------------
(* Type invariants of objects: evaluated on every projected real state.     *)

ObjOK(o) ==
    CASE o.kind = "Set"     -> StrictlyAscending(o.s, o.c)
      [] o.kind = "Stack"   -> Len(o.s) <= o.cap
      [] o.kind = "Queue"   -> Len(o.s) <= o.cap
      [] o.kind = "Catalog" -> NoDupKeys(o.s)
      [] o.kind \in {"Map", "GoMap"} -> NoDupKeys(o.s) /\ Ascending(Keys(o.s), "nat")
      [] o.kind = "Iter"    -> o.slot \in 0..Len(o.s)
      [] OTHER -> TRUE

WorldOK(w) == \A i \in 1..Len(w) : ObjOK(w[i])

=============================================================================
