------------------------------ MODULE Registry ------------------------------
(***************************************************************************)
(* C19: the generic class accessors (List[V], Set[V], Collator[V], ...) and *)
(* the independence of distinct instances.                                  *)
(*                                                                          *)
(* Model (MODE = "model"): every accessor is  lock; look the bound class up *)
(* by type name; create and register it if absent; unlock; return it.       *)
(* Processes call the accessor concurrently for the same or different type  *)
(* parameters; TLC checks over every interleaving that all calls for one    *)
(* type return the one class (OneClass) and that a class, once returned, is *)
(* never replaced (Stable).                                                 *)
(*                                                                          *)
(* Judging the real code (MODE = "check"): the file (env TRACE) holds       *)
(*   [k |-> "trial", distinct |-> n]   a first-use race of 8 goroutines on  *)
(*        a fresh type parameter returned n different classes (must be 1)   *)
(*   [k |-> "pair", mismatches |-> n]  two operation families run           *)
(*        concurrently on disjoint instances; n of the per-goroutine        *)
(*        results differ from running them one after another (must be 0)    *)
(***************************************************************************)
EXTENDS Integers, Sequences, FiniteSets, Json, IOUtils, TLC

CONSTANTS MODE, Procs, Types

VARIABLES pc,        \* pc[p] in {"start", "locked", "done"}
          want,      \* want[p]: the type parameter of p's call
          holder,    \* the process holding the mutex, or "none"
          registry,  \* registry[t]: 0 (absent) or the id of the bound class
          created,   \* number of classes created so far
          got        \* got[p]: the class returned to p (0: not yet)

vars == <<pc, want, holder, registry, created, got>>

Init == /\ pc = [p \in Procs |-> "start"]
        /\ want \in [Procs -> Types]
        /\ holder = "none"
        /\ registry = [t \in Types |-> 0]
        /\ created = 0
        /\ got = [p \in Procs |-> 0]

Lock(p) == /\ pc[p] = "start" /\ holder = "none"
           /\ holder' = p /\ pc' = [pc EXCEPT ![p] = "locked"]
           /\ UNCHANGED <<want, registry, created, got>>

\* the critical section: lookup, insert if absent, unlock, return
Lookup(p) == /\ pc[p] = "locked" /\ holder = p
             /\ IF registry[want[p]] # 0
                THEN /\ got' = [got EXCEPT ![p] = registry[want[p]]]
                     /\ UNCHANGED <<registry, created>>
                ELSE /\ created' = created + 1
                     /\ registry' = [registry EXCEPT ![want[p]] = created + 1]
                     /\ got' = [got EXCEPT ![p] = created + 1]
             /\ holder' = "none" /\ pc' = [pc EXCEPT ![p] = "done"]
             /\ UNCHANGED want

Next == \E p \in Procs : Lock(p) \/ Lookup(p)
Spec == Init /\ [][Next]_vars

OneClass == \A p, q \in Procs : (got[p] # 0 /\ got[q] # 0 /\ want[p] = want[q]) => got[p] = got[q]
Distinct == \A p, q \in Procs : (got[p] # 0 /\ got[q] # 0 /\ want[p] # want[q]) => got[p] # got[q]
Stable == [][\A t \in Types : registry[t] # 0 => registry'[t] = registry[t]]_vars

----------------------------------------------------------------------------
Recs == IF MODE = "check" THEN ndJsonDeserialize(IOEnv.TRACE) ELSE <<>>
RecOK(x) == IF x.k = "trial" THEN x.distinct = 1 ELSE x.mismatches = 0
Bad == {i \in 1..Len(Recs) : ~RecOK(Recs[i])}

CheckInit == /\ pc = [p \in Procs |-> "done"] /\ want = [p \in Procs |-> CHOOSE t \in Types : TRUE]
             /\ holder = "none" /\ registry = [t \in Types |-> 0] /\ created = 0 /\ got = [p \in Procs |-> 0]
             /\ PrintT(<<"BAD", Bad>>)
CheckSpec == CheckInit /\ [][UNCHANGED vars]_vars
=============================================================================
