----------------------------- MODULE MergeSort -----------------------------
(***************************************************************************)
(* Implementation-level model of agent/sorter.go (C09): the bottom-up merge *)
(* sort with width doubling, clamping of `middle` and `right` for lengths   *)
(* that are not powers of two, two ping-pong buffers and the final          *)
(* copy-back, transcribed so that it yields the same result *and the same   *)
(* sequence of ranker calls* as the code:                                   *)
(*                                                                          *)
(*   for width = 1; width < n; width *= 2                                   *)
(*     for left = 0; left < n; left += 2*width                              *)
(*        middle = min(left+width, n); right = min(middle+width, n)         *)
(*        merge(buffer[left:middle], buffer[middle:right]) -> values[left:right] *)
(*     swap(buffer, values)                                                 *)
(*   copy(values, buffer)                                                   *)
(*   merge: take left iff ranker(left, right) = Lesser, else right          *)
(*                                                                          *)
(* MODE = "model": TLC checks, for every array of length 0..MaxLen over     *)
(*   Vals and every ranker (inconsistent ones included), that the model     *)
(*   terminates with a permutation, ascending for total preorders, within   *)
(*   the comparison bound - i.e. that the algorithm satisfies SortLaws.     *)
(* MODE = "trace": the real sorter was run with a logging ranker; each      *)
(*   record [ranker, input, output, cmps] must be exactly the model's run   *)
(*   (a difference is model drift: the algorithm changed).                  *)
(***************************************************************************)
EXTENDS Integers, Sequences, FiniteSets, Json, IOUtils, TLC

CONSTANTS MODE, MaxLen, Vals

LT == 1
EQ == 2
GT == 3
CmpInt(a, b) == IF a < b THEN LT ELSE IF a > b THEN GT ELSE EQ
Rank(name, a, b) ==
    CASE name = "nat"     -> CmpInt(a, b)
      [] name = "rev"     -> CmpInt(b, a)
      [] name = "coarse"  -> CmpInt(a \div 2, b \div 2)
      [] name = "const"   -> EQ
      [] name = "lesser"  -> LT
      [] name = "greater" -> GT
      [] name = "odd"     -> IF (a + b) % 2 = 1 THEN LT ELSE GT
Preorders == {"nat", "rev", "coarse", "const"}
Rankers == Preorders \cup {"lesser", "greater", "odd"}

Min2(a, b) == IF a < b THEN a ELSE b
Sub(s, a, b) == IF a > b THEN <<>> ELSE SubSeq(s, a, b)

\* elements are <<value, tag>>; acc = [out, cmps]
RECURSIVE Merge(_, _, _, _)
Merge(L, R, r, acc) ==
    IF L = <<>> THEN [out |-> acc.out \o R, cmps |-> acc.cmps]
    ELSE IF R = <<>> THEN [out |-> acc.out \o L, cmps |-> acc.cmps]
    ELSE LET c == Append(acc.cmps, <<L[1][2], R[1][2]>>) IN
         IF Rank(r, L[1][1], R[1][1]) = LT
         THEN Merge(Tail(L), R, r, [out |-> Append(acc.out, L[1]), cmps |-> c])
         ELSE Merge(L, Tail(R), r, [out |-> Append(acc.out, R[1]), cmps |-> c])

\* one pass over the buffer with the given width (positions are 0-based as in the code)
RECURSIVE Pass(_, _, _, _, _)
Pass(buf, width, left, r, acc) ==
    LET n == Len(buf) IN
    IF left >= n THEN acc
    ELSE LET middle == Min2(left + width, n)
             right == Min2(middle + width, n)
             m == Merge(Sub(buf, left + 1, middle), Sub(buf, middle + 1, right), r, [out |-> <<>>, cmps |-> acc.cmps]) IN
         Pass(buf, width, left + 2 * width, r, [out |-> acc.out \o m.out, cmps |-> m.cmps])

RECURSIVE Passes(_, _, _, _)
Passes(buf, width, r, cmps) ==
    IF width >= Len(buf) THEN [out |-> buf, cmps |-> cmps]
    ELSE LET p == Pass(buf, width, 0, r, [out |-> <<>>, cmps |-> cmps]) IN
         Passes(p.out, 2 * width, r, p.cmps)

Sort(s, r) == Passes(s, 1, r, <<>>)

----------------------------------------------------------------------------
Range(s) == {s[i] : i \in DOMAIN s}
IsPermTagged(a, b) == Len(a) = Len(b) /\ Range(a) = Range(b) /\ Cardinality(Range(b)) = Len(b)
Ascending(s, name) == \A i \in 1..(Len(s) - 1) : Rank(name, s[i][1], s[i + 1][1]) # GT
RECURSIVE CeilLog2(_)
CeilLog2(n) == IF n <= 1 THEN 0 ELSE 1 + CeilLog2((n + 1) \div 2)

Tag(s) == [i \in 1..Len(s) |-> <<s[i], i>>]
Inputs == UNION {[1..k -> Vals] : k \in 0..MaxLen}

ModelOK ==
    \A s \in Inputs : \A r \in Rankers :
        LET o == Sort(Tag(s), r)  n == Len(s) IN
        /\ IsPermTagged(o.out, Tag(s))
        /\ r \in Preorders => Ascending(o.out, r)
        /\ Len(o.cmps) <= n * CeilLog2(n)

Recs == IF MODE = "trace" THEN ndJsonDeserialize(IOEnv.TRACE) ELSE <<>>
Drift == {i \in 1..Len(Recs) : LET x == Recs[i]  o == Sort(x.input, x.ranker) IN
                                 o.out # x.output \/ o.cmps # x.cmps}

VARIABLE dummy
Init == /\ dummy = 0
        /\ IF MODE = "model" THEN PrintT(<<"MODELOK", ModelOK>>) ELSE PrintT(<<"DRIFT", Drift>>)
Next == UNCHANGED dummy
Spec == Init /\ [][Next]_dummy
=============================================================================
