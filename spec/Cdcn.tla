-------------------------------- MODULE Cdcn --------------------------------
(***************************************************************************)
(* The CDCN notation (cdcn/Syntax.cdsn): sentences of the grammar with      *)
(* their syntax-directed meaning (C11), the values whose formatted text     *)
(* must parse back (C10), abstract token sequences for the totality of the  *)
(* parser (C12) and the position arithmetic of the scanner.                 *)
(*                                                                          *)
(* Grammar (Syntax.cdsn):                                                   *)
(*   AST: Collection EOL* EOF          Collection: Sequence Context         *)
(*   Sequence: "[" Items "]"           Context: "(" type ")"                *)
(*   Values:  Value ("," Value)*  |  (EOL Value)+ EOL  |  " "               *)
(*   Associations: A ("," A)*  |  (EOL A)+ EOL  |  ":"     A: Intrinsic ":" Value *)
(*                                                                          *)
(* A document is a tree:                                                    *)
(*   [k |-> "lit", i |-> index into the literal table]                      *)
(*   [k |-> "assoc", key |-> lit, val |-> tree]                             *)
(*   [k |-> "coll", kind |-> type, lay |-> layout, items |-> <<trees>>]     *)
(* with lay in {"emptyv" (no values), "emptya" (":"), "inline", "multi"}.   *)
(*                                                                          *)
(* Toks(tree) is the token sequence of the sentence (the harness renders it *)
(* with arbitrary blanks between tokens); Mean(tree) is what it denotes: a  *)
(* collection of the stated type built in source order from the literals    *)
(* (a Set orders and de-duplicates; a repeated key keeps its first position *)
(* and its last value; a Map is compared in key order).                     *)
(***************************************************************************)
EXTENDS Integers, Sequences, FiniteSets, Json, IOUtils, TLC

CONSTANTS MODE,     \* "gen11" | "check" | "gen12" | "check12" | "gen10" | "check10p"
          Depth,    \* nesting depth of generated documents
          L         \* length bound for abstract token sequences (gen12)

\* literal forms: [t |-> text, c |-> class, o |-> numeric order (integers)]
Lits == IF MODE \in {"gen11", "gen12", "gen10"} THEN JsonDeserialize(IOEnv.LITS) ELSE <<>>

ValueKinds == {"Array", "List", "Queue", "Set", "Stack"}
AssocKinds == {"Catalog", "Map"}
Kinds == ValueKinds \cup AssocKinds

Lit(i) == [k |-> "lit", i |-> i]
Assoc(key, val) == [k |-> "assoc", key |-> key, val |-> val]
Coll(kind, lay, items) == [k |-> "coll", kind |-> kind, lay |-> lay, items |-> items]

----------------------------------------------------------------------------
(* Rendering: the token sequence of a tree *)

RECURSIVE Toks(_)
RECURSIVE JoinToks(_, _)
JoinToks(items, sep) ==
    IF items = <<>> THEN <<>>
    ELSE IF Len(items) = 1 THEN Toks(items[1])
    ELSE Toks(items[1]) \o sep \o JoinToks(Tail(items), sep)
RECURSIVE LinesToks(_)
LinesToks(items) == IF items = <<>> THEN <<>> ELSE <<"\n">> \o Toks(Head(items)) \o LinesToks(Tail(items))

Toks(v) ==
    CASE v.k = "lit"   -> <<Lits[v.i].t>>
      [] v.k = "assoc" -> Toks(v.key) \o <<":">> \o Toks(v.val)
      [] v.k = "coll"  ->
           <<"[">> \o
           (CASE v.lay = "emptyv" -> <<>>
              [] v.lay = "emptya" -> <<":">>
              [] v.lay = "inline" -> JoinToks(v.items, <<",">>)
              [] v.lay = "multi"  -> LinesToks(v.items) \o <<"\n">>) \o
           <<"]", "(", v.kind, ")">>

----------------------------------------------------------------------------
(* Meaning *)

RECURSIVE Mean(_)
\* identity of a literal for de-duplication / key equality: integers by value
Ident(m) == IF Lits[m.i].c = "integer" THEN <<"int", Lits[m.i].o>> ELSE <<"lit", m.i>>
KeyIn(ps, key) == \E j \in 1..Len(ps) : Ident(ps[j].key) = Ident(key)
\* first position, last value
CatPut(ps, a) == IF KeyIn(ps, a.key)
                 THEN [j \in 1..Len(ps) |-> IF Ident(ps[j].key) = Ident(a.key) THEN [ps[j] EXCEPT !.val = a.val] ELSE ps[j]]
                 ELSE Append(ps, a)
CatAll(as) == LET F[j \in 0..Len(as)] == IF j = 0 THEN <<>> ELSE CatPut(F[j - 1], as[j]) IN F[Len(as)]
\* insertion sort of integer literals by value, without duplicates
RECURSIVE InsOrd(_, _)
InsOrd(s, m) == IF s = <<>> THEN <<m>>
                ELSE IF Lits[m.i].o = Lits[Head(s).i].o THEN s
                ELSE IF Lits[m.i].o < Lits[Head(s).i].o THEN <<m>> \o s
                ELSE <<Head(s)>> \o InsOrd(Tail(s), m)
SetOf(ms) == LET F[j \in 0..Len(ms)] == IF j = 0 THEN <<>> ELSE InsOrd(F[j - 1], ms[j]) IN F[Len(ms)]
RECURSIVE InsKey(_, _)
InsKey(s, a) == IF s = <<>> THEN <<a>>
                ELSE IF Lits[a.key.i].o < Lits[Head(s).key.i].o THEN <<a>> \o s
                ELSE <<Head(s)>> \o InsKey(Tail(s), a)
ByKey(as) == LET F[j \in 0..Len(as)] == IF j = 0 THEN <<>> ELSE InsKey(F[j - 1], as[j]) IN F[Len(as)]

Mean(v) ==
    CASE v.k = "lit"   -> [k |-> "lit", i |-> v.i]
      [] v.k = "assoc" -> [k |-> "assoc", key |-> Mean(v.key), val |-> Mean(v.val)]
      [] v.k = "coll"  ->
           LET ms == [j \in 1..Len(v.items) |-> Mean(v.items[j])] IN
           [k |-> "coll", kind |-> v.kind,
            items |-> CASE v.kind = "Set" -> SetOf(ms)             \* generated sets hold integer literals only
                        [] v.kind = "Catalog" -> CatAll(ms)
                        [] v.kind = "Map" -> ByKey(CatAll(ms))     \* generated maps have integer keys only
                        [] OTHER -> IF ms # <<>> /\ \A j \in 1..Len(ms) : ms[j].k = "assoc" THEN CatAll(ms) ELSE ms]

----------------------------------------------------------------------------
(* The generated documents (C11) *)

IdxOf(c) == {i \in 1..Len(Lits) : Lits[i].c = c}
SmallInts == {i \in IdxOf("integer") : Lits[i].t \in {"1", "-1", "7", "42", "+1"}}
TwoInts == {i \in IdxOf("integer") : Lits[i].t \in {"1", "7"}}
AnInt == CHOOSE i \in IdxOf("integer") : Lits[i].t = "7"
AStr == CHOOSE i \in IdxOf("string") : Lits[i].t = "\"a\""

SeqsOf(S, lo, hi) == UNION {[1..n -> S] : n \in lo..hi}

\* every layout of a flat collection of integers / of integer-keyed associations
FlatValues(kind) ==
    {Coll(kind, "emptyv", <<>>)} \cup
    {Coll(kind, lay, [j \in 1..Len(s) |-> Lit(s[j])]) : lay \in {"inline", "multi"}, s \in SeqsOf(SmallInts, 1, 2)} \cup
    {Coll(kind, lay, <<Lit(AnInt), Lit(AnInt), Lit(AnInt)>>) : lay \in {"inline", "multi"}}
FlatAssocs(kind) ==
    {Coll(kind, "emptya", <<>>), Coll(kind, "emptyv", <<>>)} \cup
    {Coll(kind, lay, [j \in 1..Len(s) |-> Assoc(Lit(s[j][1]), Lit(s[j][2]))]) :
        lay \in {"inline", "multi"}, s \in SeqsOf(TwoInts \X TwoInts, 1, 2)} \cup
    {Coll(kind, lay, <<Assoc(Lit(AnInt), Lit(AStr)), Assoc(Lit(AStr), Lit(AnInt))>>) : lay \in {"inline", "multi"}, k2 \in {kind} \cap {"Catalog"}}
Flat == UNION {FlatValues(kd) : kd \in ValueKinds} \cup UNION {FlatAssocs(kd) : kd \in AssocKinds}

\* a few representatives to nest
Reps == {Coll("List", "emptyv", <<>>), Coll("Catalog", "emptya", <<>>),
         Coll("Set", "inline", <<Lit(AnInt)>>), Coll("Array", "multi", <<Lit(AnInt), Lit(AStr)>>),
         Coll("Map", "inline", <<Assoc(Lit(AnInt), Lit(AStr))>>),
         Coll("Stack", "inline", <<Lit(AnInt), Lit(AStr)>>)}

RECURSIVE Nested(_)
Nested(d) ==
    IF d <= 1 THEN Reps
    ELSE LET inner == Nested(d - 1) IN
         inner \cup
         {Coll(kind, lay, <<x>>) : kind \in ValueKinds \ {"Set"}, lay \in {"inline", "multi"}, x \in inner} \cup
         {Coll(kind, lay, <<x, Lit(AnInt)>>) : kind \in {"List", "Queue"}, lay \in {"inline", "multi"}, x \in inner} \cup
         {Coll(kind, lay, <<Lit(AnInt), x>>) : kind \in {"Array"}, lay \in {"inline", "multi"}, x \in inner} \cup
         {Coll(kind, lay, <<Assoc(Lit(AnInt), x)>>) : kind \in AssocKinds, lay \in {"inline", "multi"}, x \in inner} \cup
         {Coll("Catalog", lay, <<Assoc(Lit(AStr), x), Assoc(Lit(AnInt), Lit(AnInt))>>) : lay \in {"inline", "multi"}, x \in inner}

\* every literal form in every single-leaf context
LitContexts ==
    {Coll(kind, lay, <<Lit(i)>>) : kind \in ValueKinds \ {"Set"}, lay \in {"inline", "multi"}, i \in 1..Len(Lits)} \cup
    {Coll("Set", "inline", <<Lit(i)>>) : i \in IdxOf("integer")} \cup
    {Coll(kind, "inline", <<Assoc(Lit(i), Lit(AnInt))>>) : kind \in AssocKinds, i \in 1..Len(Lits)} \cup
    {Coll(kind, "multi", <<Assoc(Lit(AnInt), Lit(i))>>) : kind \in AssocKinds, i \in 1..Len(Lits)}

\* long documents: more tokens than the scanner queue (16) and deeper than the push-back stack (4)
Long == {Coll(kind, lay, [j \in 1..n |-> Lit(AnInt)]) : kind \in {"List", "Stack", "Queue"}, lay \in {"inline", "multi"}, n \in {9, 17, 40}}

\* associations as items of a value kind: a repeated key keeps its first position and its last value there too
AssocItems == {Coll(kind, lay, <<Assoc(Lit(p[1]), Lit(AnInt)), Assoc(Lit(p[2]), Lit(AStr)), Assoc(Lit(p[1]), Lit(AStr))>>) :
                  kind \in {"List", "Array", "Stack", "Queue"}, lay \in {"inline", "multi"},
                  p \in {q \in TwoInts \X TwoInts : q[1] # q[2]}} \cup
              {Coll("List", "inline", <<Coll(kind, "inline", <<Assoc(Lit(AStr), Lit(AnInt)), Assoc(Lit(AStr), Lit(AStr))>>)>>) : kind \in {"List", "Array"}}

\* the same sub-collection twice (C10 also builds these with one shared object)
Twice == {Coll(kind, lay, <<x, x>>) : kind \in {"List", "Array", "Stack"}, lay \in {"inline", "multi"}, x \in Reps} \cup
         {Coll("Catalog", "multi", <<Assoc(Lit(AnInt), x), Assoc(Lit(AStr), x)>>) : x \in Reps}

Docs == Flat \cup Nested(Depth) \cup LitContexts \cup Long \cup Twice \cup AssocItems

----------------------------------------------------------------------------
(* Abstract token sequences for the totality of the parser (C12) *)

\* {{hex}} stands for the rune with that code (expanded by the harness): columns count runes, not bytes
Alphabet == {"[", "]", "(", ")", ":", ",", "\n", "List", "Catalog", "7", "\"s{{e9}}{{263a}}\"", "#"}
TokSeqs == UNION {[1..n -> Alphabet] : n \in 1..L}

\* item kinds that do not match the type context
MixedDocs ==
    {Coll(kind, lay, items) : kind \in AssocKinds, lay \in {"inline", "multi"},
                              items \in {<<Lit(AnInt)>>, <<Lit(AnInt), Lit(AStr)>>, <<Coll("List", "emptyv", <<>>)>>}} \cup
    {Coll(kind, lay, items) : kind \in ValueKinds, lay \in {"inline", "multi"},
                              items \in {<<Assoc(Lit(AnInt), Lit(AStr))>>, <<Assoc(Lit(AnInt), Lit(AnInt)), Assoc(Lit(AStr), Lit(AnInt))>>}} \cup
    {Coll("List", "inline", <<Coll(kind, "inline", <<Lit(AnInt)>>)>>) : kind \in AssocKinds}

\* long documents with an illegal character injected at every token boundary
\* (more than 16 tokens stay behind the error) and every prefix of them
LongDocs12 == {Coll("List", lay, [j \in 1..20 |-> Lit(AnInt)]) : lay \in {"inline", "multi"}} \cup
              {Coll("Catalog", "multi", [j \in 1..12 |-> Assoc(Lit(AStr), Coll("Set", "inline", <<Lit(AnInt)>>))])}
Inject(s, j, t) == SubSeq(s, 1, j) \o <<t>> \o SubSeq(s, j + 1, Len(s))
Injected == UNION {{Inject(Toks(d), j, t) : j \in 0..Len(Toks(d)), t \in {"#", ")"}} : d \in LongDocs12}
Prefixes == UNION {{SubSeq(Toks(d), 1, j) : j \in 1..(Len(Toks(d)) - 1)} : d \in LongDocs12 \cup Reps}
\* complete documents around and beyond the default capacity (16) of the bounded collection
\* kinds and of the token queue: the parser must size what it builds to what it read
Full12 == {Coll(kind, lay, [j \in 1..n |-> Lit(AnInt)]) : kind \in ValueKinds, lay \in {"inline", "multi"}, n \in {16, 17, 40}} \cup
          {Coll(kind, "multi", [j \in 1..n |-> Assoc(Lit(AnInt), Lit(AStr))]) : kind \in AssocKinds, n \in {17, 40}} \cup
          {Coll("List", "inline", <<Coll(kind, "inline", [j \in 1..17 |-> Lit(AnInt)])>>) : kind \in {"Queue", "Stack"}}
Gen12 == TokSeqs \cup {Toks(d) : d \in MixedDocs} \cup Injected \cup Prefixes \cup {Toks(d) : d \in Full12}

----------------------------------------------------------------------------
(* Judging recorded runs                                                    *)
(* check (C10/C11): [status, want, got]  - the parse must succeed with      *)
(*   got = want (both descriptors with evaluated leaves), or, for a         *)
(*   document holding a literal that cannot be represented (want.k =        *)
(*   "reject"), must be rejected with a diagnostic.                         *)
(* check12: [status, pieces, diag]: status must be "value" or "diagnostic"; *)
(*   a diagnostic names a token that starts at the reported line / column.  *)

----------------------------------------------------------------------------
(* Values for the round trip and call sequences for purity (C10) *)

AtomTable == IF MODE = "gen10" THEN JsonDeserialize(IOEnv.ATOMS) ELSE <<>>      \* <<[c |-> class, n |-> count]>>
AtomLeaves == UNION {{[k |-> "atom", c |-> AtomTable[t].c, i |-> j] : j \in 1..AtomTable[t].n} : t \in 1..Len(AtomTable)}
AKey == [k |-> "atom", c |-> "string", i |-> 2]
\* every atom alone, next to a sibling (multi-line layout), as key and as value
AtomValues ==
    {[k |-> "coll", kind |-> kind, items |-> <<a>>] : kind \in ValueKinds, a \in AtomLeaves} \cup
    {[k |-> "coll", kind |-> "List", items |-> <<a, AKey>>] : a \in AtomLeaves} \cup
    {[k |-> "coll", kind |-> kind, items |-> <<[k |-> "assoc", key |-> a, val |-> AKey]>>] : kind \in AssocKinds, a \in AtomLeaves} \cup
    {[k |-> "coll", kind |-> kind, items |-> <<[k |-> "assoc", key |-> AKey, val |-> a], [k |-> "assoc", key |-> a, val |-> a]>>] :
        kind \in {"Catalog"}, a \in AtomLeaves \ {AKey}} \cup
    {[k |-> "coll", kind |-> "List", items |-> <<[k |-> "coll", kind |-> "Set", items |-> <<a>>], a>>] : a \in AtomLeaves}

PurityNames == {"small", "nested", "deep7", "fail0", "fail2"}
PuritySeqs == UNION {[1..n -> PurityNames] : n \in 1..L}

Recs == IF MODE \in {"check", "check12", "check10p"} THEN ndJsonDeserialize(IOEnv.TRACE) ELSE <<>>

RecOK(x) == IF x.want.k = "reject" THEN x.status = "diagnostic"
            ELSE x.status = "value" /\ x.got = x.want

\* position arithmetic of the scanner: pieces are
\*   [s |-> text, n |-> runes, at |-> rune offset in the source, nl |-> is a newline, sp |-> is blank]
\* a newline starts a new line whose first column is 1; columns count runes
Max(S) == CHOOSE m \in S : \A y \in S : y <= m
LineAt(ps, j) == 1 + Cardinality({i \in 1..(j - 1) : ps[i].nl})
ColAt(ps, j, at) == LET nls == {i \in 1..(j - 1) : ps[i].nl} IN
                    IF nls = {} THEN at + 1 ELSE at - ps[Max(nls)].at
Rec12OK(x) ==
    \/ x.status = "value"
    \/ /\ x.status = "diagnostic"
       /\ LET ps == x.pieces  n == Len(x.pieces) IN
          \/ \E j \in 1..n :
                /\ ~ps[j].sp
                /\ LineAt(ps, j) = x.diag.line /\ ColAt(ps, j, ps[j].at) = x.diag.col
                /\ (x.diag.text = ps[j].s \/ ps[j].nl \/ x.diag.type = "error")
          \/ /\ x.diag.type = "EOF"
             /\ LineAt(ps, n + 1) = x.diag.line /\ ColAt(ps, n + 1, x.total) = x.diag.col

\* check10p: [status] of purity sequences ("pure") and of deep / self-containing values ("ok")
Bad == {i \in 1..Len(Recs) : CASE MODE = "check" -> ~RecOK(Recs[i])
                                 [] MODE = "check12" -> ~Rec12OK(Recs[i])
                                 [] MODE = "check10p" -> Recs[i].status \notin {"pure", "ok"}}

VARIABLE dummy
Init == /\ dummy = 0
        /\ CASE MODE = "gen11" -> \A d \in Docs : PrintT(ToJson([toks |-> Toks(d), mean |-> Mean(d)]))
             [] MODE = "gen12" -> \A s \in Gen12 : PrintT(ToJson(s))
             [] MODE = "gen10" -> /\ \A d \in Docs : PrintT(ToJson([v |-> Mean(d)]))
                                  /\ \A v \in AtomValues : PrintT(ToJson([v |-> v]))
                                  /\ \A q \in PuritySeqs : PrintT(ToJson([seq |-> q]))
             [] OTHER -> PrintT(<<"BAD", Bad>>)
Next == UNCHANGED dummy
Spec == Init /\ [][Next]_dummy
=============================================================================
