package qstress

import (
	"fmt"
	"math/rand"
	"runtime"
	"sync"
	"sync/atomic"
	"time"

	cdc "github.com/craterdog/go-collection-framework/v4/cdcn"
	col "github.com/craterdog/go-collection-framework/v4/collection"
)

type Reader struct {
	Got    []int `json:"got"`
	Closed bool  `json:"closed"`
}

type PipeRun struct {
	ID      int      `json:"id"`
	Mode    string   `json:"mode"`
	K       int      `json:"k"`
	Cap     int      `json:"cap"`
	Stream  []int    `json:"stream"`
	Done    bool     `json:"done"`
	Readers []Reader `json:"readers"`
	Wg      int      `json:"wg"`
	WgSpawn []int    `json:"wgspawn"`
	Blocked []string `json:"blocked"`
	Late    int      `json:"late"` // values delivered after a reader saw ok=false
}

type counter struct{ n atomic.Int64 }

func (c *counter) Add(d int) { c.n.Add(int64(d)) }
func (c *counter) Done()     { c.n.Add(-1) }
func (c *counter) Wait()     {}

// Pipeline runs one free-running Fork / Split / Split+Join pipeline.
func Pipeline(id int, seed int64, deadline time.Duration) PipeRun {
	var rnd = rand.New(rand.NewSource(seed))
	var run = PipeRun{ID: id, Mode: []string{"fork", "split", "splitjoin"}[rnd.Intn(3)], K: 2 + rnd.Intn(3), Cap: 1 + rnd.Intn(3), WgSpawn: []int{}}
	if rnd.Intn(5) == 0 {
		run.K = 2 + rnd.Intn(7)
	}
	var n = rnd.Intn(12)
	switch rnd.Intn(8) {
	case 0:
		n = 0
	case 1:
		n = 200 + rnd.Intn(3000)
	}
	run.Stream = make([]int, n)
	for i := range run.Stream {
		run.Stream[i] = i + 1
	}
	// the stream travels as `any`: token -1 is nil and token -2 the empty string
	// (values that the inspector calls "undefined" are values like any other)
	var enc = func(t int) any {
		switch t {
		case -1:
			return nil
		case -2:
			return ""
		}
		return t
	}
	var dec = func(v any) int {
		switch x := v.(type) {
		case nil:
			return -1
		case string:
			if x == "" {
				return -2
			}
		case int:
			return x
		}
		return -9
	}
	if rnd.Intn(2) == 0 {
		for i := range run.Stream {
			switch rnd.Intn(7) {
			case 0:
				run.Stream[i] = -1
			case 1:
				run.Stream[i] = -2
			}
		}
	}
	var class = col.Queue[any](cdc.Notation().Make())
	var grp = &counter{}
	var in = class.MakeWithCapacity(uint(run.Cap))
	var outs col.Sequential[col.QueueLike[any]]
	if run.Mode == "fork" {
		outs = class.Fork(grp, in, uint(run.K))
	} else {
		outs = class.Split(grp, in, uint(run.K))
	}
	run.WgSpawn = append(run.WgSpawn, int(grp.n.Load()))
	var finals = outs.AsArray()
	if run.Mode == "splitjoin" {
		finals = []col.QueueLike[any]{class.Join(grp, outs)}
		run.WgSpawn = append(run.WgSpawn, int(grp.n.Load()))
	}
	var wg sync.WaitGroup
	var mu sync.Mutex
	run.Readers = make([]Reader, len(finals))
	for i := range run.Readers {
		run.Readers[i].Got = []int{}
	}
	var slow = rnd.Intn(3)
	for i, q := range finals {
		var i, q = i, q
		var jitter = rnd.Int63()
		wg.Add(1)
		go func() {
			defer wg.Done()
			var r = rand.New(rand.NewSource(jitter))
			for {
				var v, ok = q.RemoveHead()
				mu.Lock()
				if ok {
					run.Readers[i].Got = append(run.Readers[i].Got, dec(v))
				} else {
					run.Readers[i].Closed = true
				}
				mu.Unlock()
				if !ok {
					return
				}
				switch slow {
				case 1:
					if r.Intn(4) == 0 {
						time.Sleep(time.Duration(r.Intn(100)) * time.Microsecond)
					}
				case 2: // bursty
					if r.Intn(50) == 0 {
						time.Sleep(time.Duration(r.Intn(2000)) * time.Microsecond)
					}
				}
			}
		}()
	}
	wg.Add(1)
	go func() {
		defer wg.Done()
		for _, v := range run.Stream {
			in.AddValue(enc(v))
			if v%7 == 0 {
				runtime.Gosched()
			}
		}
		in.CloseQueue()
	}()
	var finished = make(chan struct{})
	go func() { wg.Wait(); close(finished) }()
	select {
	case <-finished:
		// the helpers decrement the caller's group when they exit: give them a moment
		for i := 0; i < 2000 && grp.n.Load() != 0; i++ {
			time.Sleep(50 * time.Microsecond)
		}
		run.Done = true
	case <-time.After(deadline):
		// slow is not blocked: wait as long as readers keep receiving values
		var progress = func() int {
			mu.Lock()
			defer mu.Unlock()
			var n = 0
			for _, r := range run.Readers {
				n += len(r.Got)
			}
			return n
		}
		for tries := 0; tries < 6 && !run.Done; tries++ {
			var before = progress()
			select {
			case <-finished:
				for i := 0; i < 2000 && grp.n.Load() != 0; i++ {
					time.Sleep(50 * time.Microsecond)
				}
				run.Done = true
			case <-time.After(deadline):
				if progress() == before {
					tries = 6
				}
			}
		}
		if !run.Done {
			run.Blocked = blockedInLibrary()
		}
	}
	mu.Lock()
	defer mu.Unlock()
	run.Wg = int(grp.n.Load())
	// copy under the lock (readers may still be running when the deadline hit)
	var rs = make([]Reader, len(run.Readers))
	for i, r := range run.Readers {
		rs[i] = Reader{Got: append([]int{}, r.Got...), Closed: r.Closed}
	}
	run.Readers = rs
	_ = fmt.Sprint
	return run
}
