// Package qstress runs free-running (unscheduled) concurrent programs on the
// real queue and records invoke / return histories ordered by one atomic
// counter.  It needs no hooks and is also built with the race detector.
package qstress

import (
	"fmt"
	"math/rand"
	"runtime"
	"sort"
	"strings"
	"sync"
	"sync/atomic"
	"time"

	cdc "github.com/craterdog/go-collection-framework/v4/cdcn"
	col "github.com/craterdog/go-collection-framework/v4/collection"
)

type Event struct {
	Seq int64  `json:"seq"`
	E   string `json:"e"`
	P   string `json:"p"`
	Op  string `json:"op,omitempty"`
	V   int    `json:"v"`
	R   any    `json:"r,omitempty"`
	BP  bool   `json:"bp"`
}

type Run struct {
	ID        int      `json:"id"`
	Cap       int      `json:"cap"`
	Producers int      `json:"producers"`
	Consumers int      `json:"consumers"`
	Values    int      `json:"values"`
	Done      bool     `json:"done"`    // every goroutine finished
	Blocked   []string `json:"blocked"` // goroutines still blocked in the library at the deadline
	Lost      []int    `json:"lost"`    // values added but never delivered (well-formed runs only)
	History   []Event  `json:"history"`
	Observers int      `json:"observers"`
}

type recorder struct {
	seq atomic.Int64
	mu  sync.Mutex
	ev  []Event
}

func (r *recorder) add(e Event) {
	e.Seq = r.seq.Add(1)
	r.mu.Lock()
	r.ev = append(r.ev, e)
	r.mu.Unlock()
}

// call records inv, runs f (recovering a panic), records ret.
func (r *recorder) call(p, op string, v int, f func() any) (res any, panicked bool) {
	r.add(Event{E: "inv", P: p, Op: op, V: v})
	func() {
		defer func() {
			if x := recover(); x != nil {
				panicked = true
				res = map[string]any{"t": "panic", "msg": fmt.Sprint(x)}
			}
		}()
		res = f()
	}()
	r.add(Event{E: "ret", P: p, R: res, BP: true})
	return res, panicked
}

// WellFormed runs one producer/consumer/closer program: producers add
// distinct values, then the queue is closed, consumers read until ok=false;
// observers sample size / emptiness / the array view meanwhile.
func WellFormed(id int, seed int64, deadline time.Duration) Run {
	var rnd = rand.New(rand.NewSource(seed))
	var run = Run{ID: id, Cap: 1 + rnd.Intn(3), Producers: 1 + rnd.Intn(4), Consumers: 1 + rnd.Intn(4), Observers: rnd.Intn(3)}
	var per = 1 + rnd.Intn(6)
	if rnd.Intn(10) == 0 {
		per = 20 + rnd.Intn(40)
	}
	run.Values = per * run.Producers
	var q = col.Queue[int](cdc.Notation().Make()).MakeWithCapacity(uint(run.Cap))
	var rec = &recorder{}
	var wgP, wgAll sync.WaitGroup
	var slow = rnd.Intn(3) == 0
	for i := 0; i < run.Producers; i++ {
		var name = fmt.Sprintf("p%d", i+1)
		var base = (i + 1) * 1000
		var jitter = rnd.Int63()
		wgP.Add(1)
		wgAll.Add(1)
		go func() {
			defer wgAll.Done()
			defer wgP.Done()
			var r = rand.New(rand.NewSource(jitter))
			for k := 1; k <= per; k++ {
				var v = base + k
				if _, p := rec.call(name, "add", v, func() any { q.AddValue(v); return map[string]any{"t": "none"} }); p {
					return
				}
				if r.Intn(4) == 0 {
					runtime.Gosched()
				}
			}
		}()
	}
	for i := 0; i < run.Consumers; i++ {
		var name = fmt.Sprintf("c%d", i+1)
		var jitter = rnd.Int63()
		wgAll.Add(1)
		go func() {
			defer wgAll.Done()
			var r = rand.New(rand.NewSource(jitter))
			for {
				var ok bool
				var _, p = rec.call(name, "rem", 0, func() any {
					var v, k = q.RemoveHead()
					ok = k
					return map[string]any{"t": "tokok", "v": v, "ok": k}
				})
				if p || !ok {
					return
				}
				if slow && r.Intn(3) == 0 {
					time.Sleep(time.Duration(r.Intn(200)) * time.Microsecond)
				}
			}
		}()
	}
	var stopObs atomic.Bool
	for i := 0; i < run.Observers; i++ {
		var name = fmt.Sprintf("s%d", i+1)
		var jitter = rnd.Int63()
		wgAll.Add(1)
		go func() {
			defer wgAll.Done()
			var r = rand.New(rand.NewSource(jitter))
			for n := 0; n < 40 && !stopObs.Load(); n++ {
				switch r.Intn(3) {
				case 0:
					rec.call(name, "size", 0, func() any { return map[string]any{"t": "int", "v": q.GetSize()} })
				case 1:
					rec.call(name, "empty", 0, func() any { return map[string]any{"t": "bool", "v": q.IsEmpty()} })
				default:
					rec.call(name, "array", 0, func() any {
						var a = q.AsArray()
						if a == nil {
							a = []int{}
						}
						return map[string]any{"t": "seq", "v": a}
					})
				}
				runtime.Gosched()
			}
		}()
	}
	wgAll.Add(1)
	go func() {
		defer wgAll.Done()
		wgP.Wait()
		rec.call("x", "close", 0, func() any { q.CloseQueue(); return map[string]any{"t": "none"} })
	}()
	await(&run, rec, &wgAll, deadline, &stopObs)
	rec.mu.Lock()
	run.History = append([]Event(nil), rec.ev...)
	rec.mu.Unlock()
	sort.Slice(run.History, func(i, j int) bool { return run.History[i].Seq < run.History[j].Seq })
	if run.Done {
		var added, got = map[int]bool{}, map[int]int{}
		for _, e := range run.History {
			if e.E == "inv" && e.Op == "add" {
				added[e.V] = true
			}
			if m, ok := e.R.(map[string]any); ok && m["t"] == "tokok" && m["ok"] == true {
				got[m["v"].(int)]++
			}
		}
		for v := range added {
			if got[v] != 1 {
				run.Lost = append(run.Lost, v)
			}
		}
		sort.Ints(run.Lost)
	}
	return run
}

// await waits for every goroutine of the run; a run is declared stuck only if
// it makes no progress at all: on a loaded machine a slow run is not a blocked one
func await(run *Run, rec *recorder, wgAll *sync.WaitGroup, deadline time.Duration, stopObs *atomic.Bool) {
	var finished = make(chan struct{})
	go func() { wgAll.Wait(); close(finished) }()
	var waited = 0
	for !run.Done {
		select {
		case <-finished:
			run.Done = true
		case <-time.After(deadline):
			var before = rec.seq.Load()
			select {
			case <-finished:
				run.Done = true
				continue
			case <-time.After(deadline):
			}
			waited++
			if rec.seq.Load() != before && waited < 6 {
				continue // still moving
			}
			stopObs.Store(true)
			run.Blocked = blockedInLibrary()
		}
		if !run.Done && run.Blocked != nil {
			break
		}
		if !run.Done && waited >= 6 {
			stopObs.Store(true)
			run.Blocked = blockedInLibrary()
			break
		}
	}
}

// Call is one step of a client program.
type Call struct {
	Op string `json:"op"`
	V  int    `json:"v"`
}

// Program is a small client program (the ones model-checked on QueueImpl.tla):
// every process runs its calls in order, after the processes it waits for.
type Program struct {
	Name  string              `json:"name"`
	Cap   int                 `json:"cap"`
	Procs map[string][]Call   `json:"procs"`
	After map[string][]string `json:"after"`
}

// RunProgram runs the program free (no scheduler): the Go scheduler picks the
// interleaving, a seeded jitter varies it; the run ends when every process is
// done or when nothing moves any more (a real end: what is left is blocked).
func RunProgram(id int, prog Program, seed int64, deadline time.Duration) Run {
	var rnd = rand.New(rand.NewSource(seed))
	var run = Run{ID: id, Cap: prog.Cap}
	var q = col.Queue[int](cdc.Notation().Make()).MakeWithCapacity(uint(prog.Cap))
	var rec = &recorder{}
	var wgAll sync.WaitGroup
	var done = map[string]chan struct{}{}
	var names []string
	for name := range prog.Procs {
		names = append(names, name)
		done[name] = make(chan struct{})
	}
	sort.Strings(names)
	for _, name := range names {
		var name = name
		var calls = prog.Procs[name]
		var jitter = rnd.Int63()
		wgAll.Add(1)
		go func() {
			defer wgAll.Done()
			defer close(done[name])
			for _, dep := range prog.After[name] {
				<-done[dep]
			}
			var r = rand.New(rand.NewSource(jitter))
			for _, c := range calls {
				var c = c
				switch r.Intn(4) {
				case 0:
					runtime.Gosched()
				case 1:
					time.Sleep(time.Duration(r.Intn(50)) * time.Microsecond)
				}
				var _, p = rec.call(name, c.Op, c.V, func() any {
					switch c.Op {
					case "add":
						q.AddValue(c.V)
					case "rem":
						var v, k = q.RemoveHead()
						return map[string]any{"t": "tokok", "v": v, "ok": k}
					case "close":
						q.CloseQueue()
					case "clear":
						q.RemoveAll()
					case "size":
						return map[string]any{"t": "int", "v": q.GetSize()}
					case "empty":
						return map[string]any{"t": "bool", "v": q.IsEmpty()}
					case "array":
						var a = q.AsArray()
						if a == nil {
							a = []int{}
						}
						return map[string]any{"t": "seq", "v": a}
					}
					return map[string]any{"t": "none"}
				})
				if p {
					return
				}
			}
		}()
	}
	var stopObs atomic.Bool
	await(&run, rec, &wgAll, deadline, &stopObs)
	rec.mu.Lock()
	run.History = append([]Event(nil), rec.ev...)
	rec.mu.Unlock()
	sort.Slice(run.History, func(i, j int) bool { return run.History[i].Seq < run.History[j].Seq })
	return run
}

// blockedInLibrary lists goroutines blocked on a channel inside the library.
func blockedInLibrary() []string {
	var buf = make([]byte, 1<<22)
	var n = runtime.Stack(buf, true)
	var out []string
	for _, g := range strings.Split(string(buf[:n]), "\n\n") {
		var lines = strings.Split(g, "\n")
		if len(lines) < 2 || !(strings.Contains(lines[0], "[chan send") || strings.Contains(lines[0], "[chan receive") ||
			strings.Contains(lines[0], "[sync.Mutex") || strings.Contains(lines[0], "[semacquire") || strings.Contains(lines[0], "[sync.Cond")) {
			continue
		}
		for _, l := range lines[1:] {
			if strings.HasPrefix(l, "\t") || strings.HasPrefix(l, "runtime.") || strings.HasPrefix(l, "sync.") || strings.HasPrefix(l, "internal/") {
				continue
			}
			if strings.Contains(l, "go-collection-framework/") {
				var fn = l
				if i := strings.Index(fn, "("); i > 0 {
					fn = fn[:i]
				}
				out = append(out, strings.TrimSuffix(strings.SplitN(lines[0], "[", 2)[1], "]:")+" in "+fn[strings.LastIndex(fn, "/")+1:])
			}
			break
		}
	}
	return out
}
