//go:build verif

package qsched

import (
	"encoding/json"
	"fmt"
	"reflect"
	"sort"
	"time"

	cdc "github.com/craterdog/go-collection-framework/v4/cdcn"
	col "github.com/craterdog/go-collection-framework/v4/collection"
)

type Call struct {
	Op string `json:"op"`
	V  int    `json:"v"`
}

type Obs struct {
	Vals   []int            `json:"vals"`
	Buf    int              `json:"buf"`
	Res    map[string][]any `json:"res"`
	Locked bool             `json:"locked"`
}

type SStep struct {
	P      string   `json:"p"`
	A      string   `json:"a"`
	Arrive []string `json:"arrive"`
	Park   []string `json:"park"`
	Obs    *Obs     `json:"obs"`
}

type Schedule struct {
	ID    int     `json:"id"`
	Steps []SStep `json:"steps"`
	Final string  `json:"final"` // "done" | "stuck" | "open"
}

type Job struct {
	Cap       int               `json:"cap"`
	Procs     map[string][]Call `json:"procs"`
	Schedules []Schedule        `json:"schedules"`
}

type Result struct {
	ID      int     `json:"id"`
	Status  string  `json:"status"` // ok | drift | stuck
	Detail  string  `json:"detail"`
	Step    int     `json:"step"`
	History []Event `json:"history"`
	Stuck   []string `json:"stuck,omitempty"`
}

var kindOf = map[string]string{"Start": "idle", "AddCrit": "lock", "AddSend": "send", "RemRecv": "recv", "RemCrit": "lock",
	"Close": "lock", "Clear": "lock", "Observe": "lock"}

func toSet(names []string) map[string]bool {
	var m = map[string]bool{}
	for _, n := range names {
		m[n] = true
	}
	return m
}

// RunSchedule forces one schedule onto a fresh real queue.
func RunSchedule(job *Job, sc Schedule, timeout time.Duration) (res Result) {
	res = Result{ID: sc.ID, Status: "ok"}
	var s = New()
	s.Timeout = timeout
	s.Install()
	defer Uninstall()
	defer s.Release()
	var notation = cdc.Notation().Make()
	var q = col.Queue[int](notation).MakeWithCapacity(uint(job.Cap))
	var hasClear = false
	var names []string
	for name, calls := range job.Procs {
		names = append(names, name)
		for _, c := range calls {
			if c.Op == "clear" {
				hasClear = true
			}
		}
	}
	sort.Strings(names)
	for _, name := range names {
		var calls = job.Procs[name]
		s.Go(name, func(call func(op string, v int, f func() any)) {
			for _, c := range calls {
				var c = c
				call(c.Op, c.V, func() any { return doCall(q, c) })
			}
		})
	}
	if err := s.Collect(toSet(names)); err != "" {
		res.Status, res.Detail = "drift", "start-up: "+err
		return res
	}
	defer func() { res.History = s.History }()
	for i, st := range sc.Steps {
		res.Step = i
		if st.A == "Start" {
			var g = job.Procs[st.P]
			var n = 0
			for _, e := range s.History {
				if e.E == "inv" && e.P == st.P {
					n++
				}
			}
			if n < len(g) {
				s.History = append(s.History, Event{E: "inv", P: st.P, Op: g[n].Op, V: g[n].V})
			}
		}
		if err := s.Grant(st.P, kindOf[st.A]); err != "" {
			res.Status, res.Detail = "drift", fmt.Sprintf("step %d %s(%s): %s", i, st.A, st.P, err)
			return res
		}
		for _, p := range st.Park {
			if err := s.WaitParked(p); err != "" {
				res.Status, res.Detail = "drift", fmt.Sprintf("step %d %s(%s): %s", i, st.A, st.P, err)
				return res
			}
		}
		if err := s.Collect(toSet(st.Arrive)); err != "" {
			res.Status, res.Detail = "drift", fmt.Sprintf("step %d %s(%s): %s", i, st.A, st.P, err)
			return res
		}
		if st.Obs != nil && !st.Obs.Locked {
			if d := observeGuarded(q, s, st.Obs, timeout); d != "" {
				res.Status, res.Detail = "drift", fmt.Sprintf("step %d %s(%s): %s", i, st.A, st.P, d)
				return res
			}
		}
	}
	for i := range s.History {
		s.History[i].BP = !hasClear
	}
	// final state
	var notDone []string
	for _, name := range names {
		s.mu.Lock()
		var g = s.byName[name]
		s.mu.Unlock()
		if !g.done {
			notDone = append(notDone, name+"["+s.where(name)+"]")
		}
	}
	switch sc.Final {
	case "done":
		if len(notDone) > 0 {
			res.Status, res.Detail = "drift", fmt.Sprintf("model is done, real goroutines are not: %v", notDone)
		}
	case "stuck":
		// the model cannot move; confirm on the real code after a grace period
		time.Sleep(30 * time.Millisecond)
		var still []string
		for _, name := range names {
			s.mu.Lock()
			var g = s.byName[name]
			s.mu.Unlock()
			if g.done {
				continue
			}
			var st, lib = goroutineStatus(g.goid)
			if lib {
				still = append(still, fmt.Sprintf("%s: %s", name, st))
			}
		}
		if len(still) > 0 {
			res.Status, res.Stuck = "stuck", still
			res.Detail = fmt.Sprintf("goroutines blocked inside the library with no step able to wake them: %v", still)
		} else {
			var panicked = false
			for _, e := range s.History {
				if m, ok := e.R.(map[string]any); ok && m["t"] == "panic" {
					panicked = true
				}
			}
			if panicked {
				// the model is stuck because a critical section panicked and left the
				// mutex locked: nothing is blocked yet; the panic is in the history
				res.Detail = "a call panicked inside a critical section"
			} else {
				res.Status, res.Detail = "drift", "model is stuck, real goroutines are not blocked in the library"
			}
		}
	}
	return res
}

func doCall(q col.QueueLike[int], c Call) any {
	switch c.Op {
	case "add":
		q.AddValue(c.V)
		return map[string]any{"t": "none"}
	case "rem":
		var v, ok = q.RemoveHead()
		return map[string]any{"t": "tokok", "v": v, "ok": ok}
	case "close":
		q.CloseQueue()
		return map[string]any{"t": "none"}
	case "clear":
		q.RemoveAll()
		return map[string]any{"t": "none"}
	case "size":
		return map[string]any{"t": "int", "v": q.GetSize()}
	case "empty":
		return map[string]any{"t": "bool", "v": q.IsEmpty()}
	case "array":
		var a = q.AsArray()
		if a == nil {
			a = []int{}
		}
		return map[string]any{"t": "seq", "v": a}
	}
	panic("unknown op " + c.Op)
}

// observeGuarded runs observe under a watchdog: on code whose locking differs
// from the model the observer itself may block on the queue's mutex.
func observeGuarded(q col.QueueLike[int], s *Sched, o *Obs, timeout time.Duration) string {
	var done = make(chan string, 1)
	go func() { done <- observe(q, s, o) }()
	select {
	case d := <-done:
		return d
	case <-time.After(timeout):
		return "the observer blocked on the queue (its mutex is held across a scheduling point)"
	}
}

// observe compares the real queue with the model state after a step.
func observe(q col.QueueLike[int], s *Sched, o *Obs) string {
	var vals = q.AsArray()
	if len(vals) != len(o.Vals) {
		return fmt.Sprintf("value list is %v, the model has %v", vals, o.Vals)
	}
	for i := range vals {
		if vals[i] != o.Vals[i] {
			return fmt.Sprintf("value list is %v, the model has %v", vals, o.Vals)
		}
	}
	if n := q.GetSize(); n != o.Buf {
		return fmt.Sprintf("token count is %d, the model has %d", n, o.Buf)
	}
	var got = map[string][]any{}
	for _, e := range s.History {
		if e.E == "ret" {
			got[e.P] = append(got[e.P], e.R)
		}
	}
	for p, want := range o.Res {
		var a, _ = json.Marshal(got[p])
		var b, _ = json.Marshal(want)
		var x, y any
		json.Unmarshal(a, &x)
		json.Unmarshal(b, &y)
		if len(want) == 0 && len(got[p]) == 0 {
			continue
		}
		if !reflect.DeepEqual(x, y) {
			return fmt.Sprintf("results of %s are %s, the model has %s", p, a, b)
		}
	}
	return ""
}
