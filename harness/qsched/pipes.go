//go:build verif

package qsched

import (
	"fmt"
	"reflect"
	"sort"
	"sync/atomic"
	"time"

	cdc "github.com/craterdog/go-collection-framework/v4/cdcn"
	col "github.com/craterdog/go-collection-framework/v4/collection"
)

// PStep is one call-level step of spec/Pipes.tla.
type PStep struct {
	A   string `json:"a"` // FeederAdd FeederClose HelperTake HelperPut HelperClose JoinerTake JoinerPut JoinerClose Read
	P   string `json:"p"`
	Got bool   `json:"got"`  // Take / Read: a value was taken (else closed and empty)
	End bool   `json:"end"`  // the process terminates with this step
	Obs *PObs  `json:"obs"`
}

type PObs struct {
	Qs  map[string][]int `json:"qs"`
	Got map[string][]int `json:"got"`
	Wg  int              `json:"wg"`
}

type PSchedule struct {
	ID    int     `json:"id"`
	Steps []PStep `json:"steps"`
	Final string  `json:"final"`
}

type PJob struct {
	Mode      string      `json:"mode"`
	K         int         `json:"k"`
	Cap       int         `json:"cap"`
	Stream    []int       `json:"stream"`
	Schedules []PSchedule `json:"schedules"`
}

type PResult struct {
	ID     int              `json:"id"`
	Status string           `json:"status"` // ok | drift | violation
	Detail string           `json:"detail"`
	Step   int              `json:"step"`
	Got    map[string][]int `json:"got"`
	Closed map[string]bool  `json:"closed"` // reader saw ok=false
	Wg     int              `json:"wg"`
	WgAtSpawn []int         `json:"wg_at_spawn"`
}

// group is the caller's wait group (the Synchronized passed to Fork/Split/Join).
type group struct {
	n atomic.Int64
	s *Sched
}

func (g *group) Add(delta int) { g.n.Add(int64(delta)) }
func (g *group) Wait()         {}
func (g *group) Done() {
	g.n.Add(-1)
	g.s.Exited()
}

// Pipe builds the real pipeline; it is shared by the forced replays and the
// free-running stress.
type Pipe struct {
	In     col.QueueLike[int]
	Outs   []col.QueueLike[int]
	Joined col.QueueLike[int]
	Final  map[string]col.QueueLike[int] // reader name -> queue it reads
	All    map[string]col.QueueLike[int]
}

func BuildPipe(mode string, k, cap int, grp col.Synchronized, s *Sched) *Pipe {
	var class = col.Queue[int](cdc.Notation().Make())
	var p = &Pipe{Final: map[string]col.QueueLike[int]{}, All: map[string]col.QueueLike[int]{}}
	p.In = class.MakeWithCapacity(uint(cap))
	p.All["in"] = p.In
	if s != nil {
		s.ExpectSpawnOn(p.In, "helper")
	}
	var outs col.Sequential[col.QueueLike[int]]
	if mode == "fork" {
		outs = class.Fork(grp, p.In, uint(k))
	} else {
		outs = class.Split(grp, p.In, uint(k))
	}
	p.Outs = outs.AsArray()
	for i, o := range p.Outs {
		p.All[fmt.Sprintf("o%d", i+1)] = o
	}
	if mode == "splitjoin" {
		if s != nil {
			s.ExpectSpawnOn(p.Outs[0], "joiner")
		}
		p.Joined = class.Join(grp, outs)
		p.All["joined"] = p.Joined
		p.Final["r"] = p.Joined
	} else {
		for i, o := range p.Outs {
			p.Final[fmt.Sprintf("r%d", i+1)] = o
		}
	}
	return p
}

var hooksOf = map[string][]string{
	"FeederAdd": {"idle", "lock", "send"}, "FeederClose": {"idle", "lock"},
	"HelperPut": {"lock", "send"}, "HelperClose": {"lock"},
	"JoinerPut": {"lock", "send"}, "JoinerClose": {"lock"},
}

// RunPipeSchedule forces one call-level schedule onto the real pipeline.
func RunPipeSchedule(job *PJob, sc PSchedule, timeout time.Duration) (res PResult) {
	res = PResult{ID: sc.ID, Status: "ok", Got: map[string][]int{}, Closed: map[string]bool{}}
	var s = New()
	s.Timeout = timeout
	var grp = &group{s: s}
	s.OnSpawn = func() { res.WgAtSpawn = append(res.WgAtSpawn, int(grp.n.Load())) }
	s.Install()
	defer Uninstall()
	defer s.Release()
	var pipe = BuildPipe(job.Mode, job.K, job.Cap, grp, s)
	var names = []string{"feeder", "helper"}
	if job.Mode == "splitjoin" {
		names = append(names, "joiner")
	}
	s.Go("feeder", func(call func(op string, v int, f func() any)) {
		for _, v := range job.Stream {
			var v = v
			call("add", v, func() any { pipe.In.AddValue(v); return nil })
		}
		call("close", 0, func() any { pipe.In.CloseQueue(); return nil })
	})
	var readers []string
	for r := range pipe.Final {
		readers = append(readers, r)
	}
	sort.Strings(readers)
	var gotCh = make(chan [3]int, 1024) // reader index, value, ok
	for ri, r := range readers {
		var q = pipe.Final[r]
		var ri = ri
		names = append(names, r)
		s.Go(r, func(call func(op string, v int, f func() any)) {
			for {
				var ok bool
				call("rem", 0, func() any {
					var v, k = q.RemoveHead()
					ok = k
					var b = 0
					if k {
						b = 1
					}
					gotCh <- [3]int{ri, v, b}
					return nil
				})
				if !ok {
					return
				}
			}
		})
	}
	if err := s.Collect(toSet(names)); err != "" {
		res.Status, res.Detail = "drift", "start-up: "+err
		return res
	}
	var drain = func() {
		for {
			select {
			case x := <-gotCh:
				var r = readers[x[0]]
				if x[2] == 1 {
					res.Got[r] = append(res.Got[r], x[1])
				} else {
					res.Closed[r] = true
				}
			default:
				return
			}
		}
	}
	for i, st := range sc.Steps {
		res.Step = i
		var hooks = hooksOf[st.A]
		switch st.A {
		case "HelperTake", "JoinerTake":
			hooks = []string{"recv"}
			if st.Got {
				hooks = []string{"recv", "lock"}
			}
		case "Read":
			hooks = []string{"idle", "recv"}
			if st.Got {
				hooks = []string{"idle", "recv", "lock"}
			}
		}
		for _, h := range hooks {
			if err := s.Grant(st.P, h); err != "" {
				res.Status, res.Detail = "drift", fmt.Sprintf("step %d %s: %s", i, st.A, err)
				return res
			}
			if err := s.Collect(map[string]bool{st.P: true}); err != "" {
				res.Status, res.Detail = "drift", fmt.Sprintf("step %d %s after %s: %s", i, st.A, h, err)
				return res
			}
		}
		drain()
		if st.Obs != nil {
			for n, want := range st.Obs.Qs {
				var got = pipe.All[n].AsArray()
				if len(got) == 0 && len(want) == 0 {
					continue
				}
				if !reflect.DeepEqual(got, want) {
					res.Status, res.Detail = "drift", fmt.Sprintf("step %d %s: queue %s holds %v, the model has %v", i, st.A, n, got, want)
					return res
				}
			}
			for r, want := range st.Obs.Got {
				if len(res.Got[r]) == 0 && len(want) == 0 {
					continue
				}
				if !reflect.DeepEqual(res.Got[r], want) {
					res.Status, res.Detail = "drift", fmt.Sprintf("step %d %s: reader %s received %v, the model has %v", i, st.A, r, res.Got[r], want)
					return res
				}
			}
			if int(grp.n.Load()) != st.Obs.Wg {
				res.Status, res.Detail = "drift", fmt.Sprintf("step %d %s: wait group counter is %d, the model has %d", i, st.A, grp.n.Load(), st.Obs.Wg)
				return res
			}
		}
	}
	res.Wg = int(grp.n.Load())
	if sc.Final == "done" {
		for _, n := range names {
			s.mu.Lock()
			var g = s.byName[n]
			s.mu.Unlock()
			if g == nil || !g.done {
				res.Status, res.Detail = "drift", fmt.Sprintf("model is done, %s is not (%s)", n, s.where(n))
				return res
			}
		}
	}
	return res
}
