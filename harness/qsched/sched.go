//go:build verif

// Package qsched is a cooperative scheduler for the real queue: it forces a
// schedule computed by TLC (a behaviour of spec/QueueImpl.tla or Pipes.tla)
// onto real goroutines through the verif hooks of queue.go, observes the
// real state after every step and records the invoke / return history.
package qsched

import (
	"bytes"
	"fmt"
	"runtime"
	"strconv"
	"strings"
	"sync"
	"time"

	col "github.com/craterdog/go-collection-framework/v4/collection"
)

// curGoid parses the id of the calling goroutine from its stack header.
func curGoid() int64 {
	var buf [64]byte
	var n = runtime.Stack(buf[:], false)
	// "goroutine 123 [running]:"
	var s = buf[len("goroutine "):n]
	var i = bytes.IndexByte(s, ' ')
	var id, _ = strconv.ParseInt(string(s[:i]), 10, 64)
	return id
}

type stopGoroutine struct{}

type arrival struct {
	goid   int64
	kind   string // "idle", "lock", "send", "recv", "returned", "panicked", "exited"
	queue  any
	result any
	msg    string
}

// G is a managed goroutine.
type G struct {
	Name    string
	goid    int64
	gate    chan struct{}
	pending *arrival // where it waits (nil: running or parked in the library)
	parked  bool
	done    bool
}

type Event struct {
	E  string `json:"e"` // "inv" | "ret"
	P  string `json:"p"`
	Op string `json:"op,omitempty"`
	V  int    `json:"v"`
	R  any    `json:"r,omitempty"`
	BP bool   `json:"bp"`
}

type Sched struct {
	mu        sync.Mutex
	arrivals  chan arrival
	byGoid    map[int64]*G
	byName    map[string]*G
	spawnName []string // names to give to goroutines spawned by the library, in order
	spawnOn   map[any]string // ... or by the queue their first hook call touches
	Spawns    int      // number of spawn notes seen
	OnSpawn   func()   // called (on the spawning goroutine) at each spawn note
	spawned   int      // spawn notes not yet matched by a first arrival
	free      bool     // free-running: hooks do not block
	Timeout   time.Duration
	History   []Event
	Notes     []string
}

func New() *Sched {
	return &Sched{arrivals: make(chan arrival, 64), byGoid: map[int64]*G{}, byName: map[string]*G{}, Timeout: 2 * time.Second}
}

// Install makes this scheduler the handler of the queue hooks.
func (s *Sched) Install() {
	col.VerifSetHandler(&col.VerifHandler{
		Yield: func(event int, queue any, ch chan bool) {
			var kind = map[int]string{col.VerifLock: "lock", col.VerifSend: "send", col.VerifRecv: "recv"}[event]
			s.yield(kind, queue)
		},
		Note: func(event int, queue any, ch chan bool) {},
		Spawn: func() {
			s.mu.Lock()
			s.spawned++
			s.Spawns++
			var f = s.OnSpawn
			s.mu.Unlock()
			if f != nil {
				f()
			}
		},
	})
}

func Uninstall() { col.VerifSetHandler(nil) }

// yield is called by library code at a scheduling point.
func (s *Sched) yield(kind string, queue any) {
	var id = curGoid()
	s.mu.Lock()
	if s.free {
		s.mu.Unlock()
		return
	}
	var g = s.byGoid[id]
	if g == nil {
		if name, ok := s.spawnOn[queue]; ok && s.spawned > 0 {
			s.spawned--
			delete(s.spawnOn, queue)
			g = &G{Name: name, goid: id, gate: make(chan struct{}, 1)}
			s.byGoid[id] = g
			s.byName[name] = g
		} else if s.spawned > 0 && len(s.spawnName) > 0 {
			// first hook call of a goroutine spawned by the library: adopt it
			s.spawned--
			g = &G{Name: s.spawnName[0], goid: id, gate: make(chan struct{}, 1)}
			s.spawnName = s.spawnName[1:]
			s.byGoid[id] = g
			s.byName[g.Name] = g
		} else {
			s.mu.Unlock()
			return // not managed (e.g. the scheduler observing the queue)
		}
	}
	s.mu.Unlock()
	s.arrivals <- arrival{goid: id, kind: kind, queue: queue}
	<-g.gate
}

// Go starts a managed goroutine running body; the goroutine first waits to be
// granted.  body receives a function `call` that wraps each library call.
func (s *Sched) Go(name string, body func(call func(op string, v int, f func() any))) {
	var g = &G{Name: name, gate: make(chan struct{}, 1)}
	s.mu.Lock()
	s.byName[name] = g
	s.mu.Unlock()
	var ready = make(chan struct{})
	go func() {
		g.goid = curGoid()
		s.mu.Lock()
		s.byGoid[g.goid] = g
		s.mu.Unlock()
		close(ready)
		var call = func(op string, v int, f func() any) {
			// wait for Start
			s.arrivals <- arrival{goid: g.goid, kind: "idle"}
			<-g.gate
			var res any
			var msg string
			var panicked = func() (p bool) {
				defer func() {
					if r := recover(); r != nil {
						p = true
						msg = fmt.Sprint(r)
					}
				}()
				res = f()
				return false
			}()
			if panicked {
				s.arrivals <- arrival{goid: g.goid, kind: "panicked", msg: msg}
				panic(stopGoroutine{})
			}
			s.arrivals <- arrival{goid: g.goid, kind: "returned", result: res}
		}
		defer func() {
			if r := recover(); r != nil {
				if _, ok := r.(stopGoroutine); !ok {
					panic(r)
				}
			}
			s.arrivals <- arrival{goid: g.goid, kind: "exited"}
		}()
		body(call)
	}()
	<-ready
}

// Exited is called (from any goroutine) when a library-spawned goroutine
// terminates (through the wait group's Done).
func (s *Sched) Exited() {
	var id = curGoid()
	s.mu.Lock()
	var managed = s.byGoid[id] != nil
	var free = s.free
	s.mu.Unlock()
	if managed && !free {
		s.arrivals <- arrival{goid: id, kind: "exited"}
	}
}

// ExpectSpawnOn: the goroutine whose first hook call is on `queue` is `name`.
func (s *Sched) ExpectSpawnOn(queue any, name string) {
	s.mu.Lock()
	if s.spawnOn == nil {
		s.spawnOn = map[any]string{}
	}
	s.spawnOn[queue] = name
	s.mu.Unlock()
}

// ExpectSpawn tells the scheduler the names of the goroutines the library is
// going to spawn (adopted at their first hook call, in order).
func (s *Sched) ExpectSpawn(names ...string) {
	s.mu.Lock()
	s.spawnName = append(s.spawnName, names...)
	s.mu.Unlock()
}

// Collect waits until every goroutine in `names` has arrived somewhere (or
// exited).  It returns an error text if one does not within the timeout.
func (s *Sched) Collect(names map[string]bool) string {
	var deadline = time.After(s.Timeout)
	for len(names) > 0 {
		select {
		case a := <-s.arrivals:
			s.mu.Lock()
			var g = s.byGoid[a.goid]
			s.mu.Unlock()
			if g == nil {
				return fmt.Sprintf("arrival of unknown goroutine %d", a.goid)
			}
			if !names[g.Name] {
				s.record(g, a)
				return fmt.Sprintf("unexpected arrival of %s at %s", g.Name, a.kind)
			}
			if s.record(g, a) {
				delete(names, g.Name)
			}
		case <-deadline:
			var missing []string
			for n := range names {
				missing = append(missing, n+"["+s.where(n)+"]")
			}
			return "no arrival of " + strings.Join(missing, ",")
		}
	}
	return ""
}

// record processes an arrival: history events and pending state.  It returns
// true when the goroutine has come to rest (waits at a gate or is gone).
func (s *Sched) record(g *G, a arrival) bool {
	g.parked = false
	switch a.kind {
	case "returned":
		s.History = append(s.History, Event{E: "ret", P: g.Name, R: a.result})
		g.pending = nil
		return false // its "idle" or "exited" arrival follows
	case "panicked":
		s.History = append(s.History, Event{E: "ret", P: g.Name, R: map[string]any{"t": "panic", "msg": a.msg}})
		g.pending = nil
		return false // "exited" follows
	case "exited":
		g.done = true
		g.pending = nil
		return true
	default:
		var aa = a
		g.pending = &aa
		return true
	}
}

// where describes the runtime state of a managed goroutine (for diagnostics
// and for detecting that it is parked in a real channel operation).
func (s *Sched) where(name string) string {
	s.mu.Lock()
	var g = s.byName[name]
	s.mu.Unlock()
	if g == nil {
		return "unknown"
	}
	var st, lib = goroutineStatus(g.goid)
	if lib {
		return st + " in library"
	}
	return st
}

// goroutineStatus returns the wait status of goroutine id ("chan send",
// "chan receive", "running", ...) and whether it is blocked inside the
// library (as opposed to waiting at a scheduler gate).
func goroutineStatus(id int64) (status string, inLibrary bool) {
	var buf = make([]byte, 1<<20)
	var n = runtime.Stack(buf, true)
	var all = string(buf[:n])
	var header = fmt.Sprintf("goroutine %d [", id)
	var i = strings.Index(all, header)
	if i < 0 {
		return "gone", false
	}
	var rest = all[i+len(header):]
	var j = strings.IndexByte(rest, ']')
	status = rest[:j]
	if k := strings.Index(status, ","); k >= 0 {
		status = status[:k]
	}
	var end = strings.Index(rest, "\n\n")
	if end < 0 {
		end = len(rest)
	}
	var stack = rest[:end]
	for _, line := range strings.Split(stack, "\n")[1:] {
		if strings.HasPrefix(line, "\t") || line == "" {
			continue
		}
		if strings.HasPrefix(line, "runtime.") || strings.HasPrefix(line, "sync.") || strings.HasPrefix(line, "internal/") {
			continue
		}
		inLibrary = strings.Contains(line, "go-collection-framework/")
		break
	}
	return status, inLibrary
}

// WaitParked waits until goroutine `name` is blocked in a channel operation
// inside the library.
func (s *Sched) WaitParked(name string) string {
	s.mu.Lock()
	var g = s.byName[name]
	s.mu.Unlock()
	if g == nil {
		return "unknown goroutine " + name
	}
	var deadline = time.Now().Add(s.Timeout)
	for {
		// it must not arrive instead
		select {
		case a := <-s.arrivals:
			s.mu.Lock()
			var og = s.byGoid[a.goid]
			s.mu.Unlock()
			if og != nil {
				s.record(og, a)
				if og == g {
					return fmt.Sprintf("%s was expected to park but arrived at %s", name, a.kind)
				}
				return fmt.Sprintf("unexpected arrival of %s at %s while waiting for %s to park", og.Name, a.kind, name)
			}
		default:
		}
		var st, lib = goroutineStatus(g.goid)
		if lib && (st == "chan send" || st == "chan receive") {
			g.parked = true
			g.pending = nil
			return ""
		}
		if time.Now().After(deadline) {
			return fmt.Sprintf("%s did not park (status %q, in library %v)", name, st, lib)
		}
		runtime.Gosched()
		time.Sleep(20 * time.Microsecond)
	}
}

// Grant releases goroutine `name`, which must be waiting at `kind`.
func (s *Sched) Grant(name, kind string) string {
	s.mu.Lock()
	var g = s.byName[name]
	s.mu.Unlock()
	if g == nil {
		return "unknown goroutine " + name
	}
	if g.pending == nil {
		return fmt.Sprintf("%s is not waiting at a scheduling point (%s)", name, s.where(name))
	}
	if g.pending.kind != kind {
		return fmt.Sprintf("%s waits at %s, the schedule wants %s", name, g.pending.kind, kind)
	}
	g.pending = nil
	g.gate <- struct{}{}
	return ""
}

// Pending returns where a goroutine waits ("" if running / parked / done).
func (s *Sched) Pending(name string) string {
	s.mu.Lock()
	var g = s.byName[name]
	s.mu.Unlock()
	if g == nil || g.pending == nil {
		return ""
	}
	return g.pending.kind
}

// Release switches to free-running mode and opens every gate: used after a
// schedule (complete or not) so that goroutines can run to completion.
func (s *Sched) Release() {
	s.mu.Lock()
	s.free = true
	var gs []*G
	for _, g := range s.byName {
		gs = append(gs, g)
	}
	s.mu.Unlock()
	// drain arrivals and keep gates open for a moment
	var stop = time.After(5 * time.Millisecond)
	for {
		for _, g := range gs {
			select {
			case g.gate <- struct{}{}:
			default:
			}
		}
		select {
		case <-s.arrivals:
		case <-stop:
			return
		default:
			time.Sleep(100 * time.Microsecond)
		}
	}
}
