package world

import (
	"math/rand"
	"time"
)

// Random histories: a table-driven generator that looks at the projected
// world to choose arguments near the interesting boundaries.

type sig struct {
	m    string
	args string // one letter per argument, see genArg
	w    int    // weight
}

var seqRead = []sig{{"AsArray", "", 1}, {"GetIterator", "", 1}, {"GetSize", "", 1}, {"IsEmpty", "", 1}}
var accessible = []sig{{"GetValue", "i", 3}, {"GetValues", "ii", 3}}
var updatable = []sig{{"SetValue", "it", 3}, {"SetValues", "iS", 3}}
var sortable = []sig{{"SortValues", "", 1}, {"SortValuesWithRanker", "r", 2}, {"ReverseValues", "", 1}, {"ShuffleValues", "", 1}}
var expandable = []sig{{"InsertValue", "st", 4}, {"InsertValues", "sS", 4}, {"AppendValue", "t", 4}, {"AppendValues", "S", 2},
	{"RemoveValue", "i", 3}, {"RemoveValues", "ii", 3}, {"RemoveAll", "", 1}}
var searchable = []sig{{"GetIndex", "t", 2}, {"ContainsValue", "t", 1}, {"ContainsAny", "S", 1}, {"ContainsAll", "S", 1}}

func cat(lists ...[]sig) []sig {
	var out []sig
	for _, l := range lists {
		out = append(out, l...)
	}
	return out
}

var methods = map[string][]sig{
	"List":  cat(seqRead, accessible, updatable, sortable, expandable, searchable),
	"Array": cat(seqRead, accessible, updatable, sortable),
	"Seq":   cat(seqRead, accessible, updatable),
	"Set": cat(seqRead, accessible, searchable, []sig{{"AddValue", "t", 8}, {"AddValues", "S", 3}, {"RemoveValue", "t", 4},
		{"RemoveValues", "S", 2}, {"RemoveAll", "", 1}, {"GetCollator", "", 1}}),
	"Stack": cat(seqRead, []sig{{"AddValue", "t", 6}, {"RemoveTop", "", 4}, {"RemoveAll", "", 1}, {"GetCapacity", "", 1}}),
	"Queue": cat(seqRead, []sig{{"AddValue", "t", 6}, {"RemoveHead", "", 4}, {"RemoveAll", "", 1}, {"GetCapacity", "", 1}, {"CloseQueue", "", 1}}),
	"Catalog": cat(seqRead, sortable, []sig{{"GetValue", "k", 2}, {"SetValue", "kv", 8}, {"RemoveValue", "k", 4}, {"RemoveAll", "", 1},
		{"GetKeys", "", 1}, {"GetValues", "Q", 2}, {"RemoveValues", "Q", 2}}),
	"Map": cat(seqRead, []sig{{"GetValue", "k", 2}, {"SetValue", "kv", 8}, {"RemoveValue", "k", 4}, {"RemoveAll", "", 1},
		{"GetKeys", "", 1}, {"GetValues", "Q", 2}, {"RemoveValues", "Q", 2}}),
	"Iter": {{"HasNext", "", 1}, {"HasPrevious", "", 1}, {"GetNext", "", 4}, {"GetPrevious", "", 4}, {"ToStart", "", 1}, {"ToEnd", "", 1},
		{"ToSlot", "j", 3}, {"GetSlot", "", 1}, {"GetSize", "", 1}, {"IsEmpty", "", 1}},
	"GoArray": {{"Poke", "pt", 1}},
	"GoMap":   {{"Poke", "kv", 2}, {"Delete", "k", 1}},
}

// class-level operations per family: {kind, method, args, element class}
type csig struct {
	k, m, args, ec string
	w              int
}

var families = map[string]struct {
	roots   []csig   // how primary objects are made
	extra   []csig   // class functions taking existing objects
	primary []string // kinds whose instances get most of the calls
}{
	"list": {
		roots: []csig{{"List", "Make", "", "V", 3}, {"List", "MakeFromArray", "G", "V", 2}, {"List", "MakeFromSequence", "S", "V", 2},
			{"Array", "Make", "n", "V", 2}, {"Array", "MakeFromArray", "G", "V", 2}, {"Array", "MakeFromSequence", "S", "V", 2}},
		extra:   []csig{{"List", "Concatenate", "LL", "V", 2}},
		primary: []string{"List", "Array"},
	},
	"set": {
		roots: []csig{{"Set", "Make", "", "V", 3}, {"Set", "MakeWithCollator", "c", "V", 4}, {"Set", "MakeFromArray", "G", "V", 2},
			{"Set", "MakeFromSequence", "S", "V", 2}},
		extra:   []csig{{"Set", "And", "TT", "V", 1}, {"Set", "Or", "TT", "V", 1}, {"Set", "Sans", "TT", "V", 1}, {"Set", "Xor", "TT", "V", 1}},
		primary: []string{"Set"},
	},
	"stack": {
		roots: []csig{{"Stack", "Make", "", "V", 2}, {"Stack", "MakeWithCapacity", "n", "V", 4}, {"Stack", "MakeFromArray", "G", "V", 2},
			{"Stack", "MakeFromSequence", "S", "V", 2}},
		primary: []string{"Stack"},
	},
	"queue": {
		roots: []csig{{"Queue", "Make", "", "V", 2}, {"Queue", "MakeWithCapacity", "n", "V", 4}, {"Queue", "MakeFromArray", "G", "V", 2},
			{"Queue", "MakeFromSequence", "S", "V", 2}},
		primary: []string{"Queue"},
	},
	"catalog": {
		roots: []csig{{"Catalog", "Make", "", "A", 4}, {"Catalog", "MakeFromArray", "G", "A", 2}, {"Catalog", "MakeFromMap", "M", "A", 2},
			{"Catalog", "MakeFromSequence", "C", "A", 2}},
		extra:   []csig{{"Catalog", "Merge", "CC", "A", 2}, {"Catalog", "Extract", "CQ", "A", 2}},
		primary: []string{"Catalog"},
	},
	"map": {
		roots: []csig{{"Map", "Make", "", "A", 4}, {"Map", "MakeFromArray", "G", "A", 2}, {"Map", "MakeFromMap", "M", "A", 2},
			{"Map", "MakeFromSequence", "C", "A", 2}},
		primary: []string{"Map"},
	},
}

type rgen[K comparable, V any] struct {
	in     *Interp[K, V]
	r      *rand.Rand
	dom    int // token domain 0..dom
	maxLen int
	w      []any // last projected world
	sid    int
	out    func(Line)
	wd     time.Duration
	alive  bool
	pre    []Step // steps to run before the one being generated
}

func (g *rgen[K, V]) objKind(id int) string { return g.w[id-1].(map[string]any)["kind"].(string) }
func (g *rgen[K, V]) objLen(id int) int     { return len(g.w[id-1].(map[string]any)["s"].([]any)) }

func (g *rgen[K, V]) tok(ec byte) any {
	var t = g.r.Intn(g.dom + 1)
	if ec == 'A' {
		return ACode(t, g.r.Intn(3))
	}
	return t
}

func (g *rgen[K, V]) lit(ec byte) []any {
	var n = g.r.Intn(4)
	if g.r.Intn(8) == 0 {
		n = g.r.Intn(g.maxLen + 1)
	}
	var l = make([]any, n)
	for i := range l {
		l[i] = g.tok(ec)
	}
	return l
}

// ids of live objects satisfying pred
func (g *rgen[K, V]) pick(pred func(id int, o *obj) bool) int {
	var c []int
	for i, o := range g.in.objs {
		if pred(i+1, o) {
			c = append(c, i+1)
		}
	}
	if len(c) == 0 {
		return 0
	}
	return c[g.r.Intn(len(c))]
}

func isSeqKind(k string) bool {
	switch k {
	case "Array", "List", "Seq", "Set", "Stack", "Queue":
		return true
	}
	return false
}

// genArg produces one argument; it may schedule preparatory steps (creating
// an operand) in g.pre.  self is the receiver id (0 for class calls).
func (g *rgen[K, V]) genArg(letter byte, self int, ec byte) (any, bool) {
	var n = 0
	if self > 0 {
		n = g.objLen(self)
	}
	switch letter {
	case 'i': // ordinal index: mostly valid, boundaries, zero, outside
		switch g.r.Intn(10) {
		case 0:
			return 0, true
		case 1:
			return n + 1 + g.r.Intn(2), true
		case 2:
			return -(n + 1 + g.r.Intn(2)), true
		}
		if n == 0 {
			return g.r.Intn(3) - 1, true
		}
		var i = 1 + g.r.Intn(n)
		if g.r.Intn(2) == 0 {
			i = -i
		}
		return i, true
	case 's': // slot 0..n, sometimes beyond
		if g.r.Intn(8) == 0 {
			return n + 1 + g.r.Intn(2), true
		}
		return g.r.Intn(n + 1), true
	case 'j': // iterator slot
		return g.r.Intn(2*n+5) - n - 2, true
	case 'n':
		if g.r.Intn(6) == 0 {
			return 0, true
		}
		return 1 + g.r.Intn(5), true
	case 't':
		return g.tok(ec), true
	case 'k':
		return g.r.Intn(g.dom + 1), true
	case 'v': // a value stored under a key
		return g.r.Intn(3), true
	case 'p':
		if n == 0 {
			return nil, false
		}
		return 1 + g.r.Intn(n), true
	case 'r':
		return []string{"nat", "rev", "coarse", "const", "lesser", "greater", "odd"}[g.r.Intn(7)], true
	case 'c':
		return []string{"nat", "rev", "coarse"}[g.r.Intn(3)], true
	case 'S', 'Q': // Sequential operand of the element class (Q: of keys)
		var want = ec
		if letter == 'Q' {
			want = 'K'
		}
		if g.r.Intn(3) > 0 {
			if id := g.pick(func(id int, o *obj) bool {
				return o.ec == want && (isSeqKind(o.kind) || (want == 'A' && (o.kind == "Catalog"))) && g.objLen(id) <= g.maxLen
			}); id != 0 {
				return id, true
			}
		}
		// make one: Go array literal -> Array or List
		var base = len(g.in.objs) + len(g.pre)
		var kind = []string{"Array", "List"}[g.r.Intn(2)]
		g.pre = append(g.pre, Step{K: "GoArray", M: "New", Args: []any{g.lit(want)}, EC: string(want)},
			Step{K: kind, M: "MakeFromArray", Args: []any{base + 1}, EC: string(want)})
		return base + 2, true
	case 'G': // Go array of the element class
		if g.r.Intn(3) == 0 {
			if id := g.pick(func(id int, o *obj) bool { return o.kind == "GoArray" && o.ec == ec && g.objLen(id) <= g.maxLen }); id != 0 {
				return id, true
			}
		}
		var base = len(g.in.objs) + len(g.pre)
		g.pre = append(g.pre, Step{K: "GoArray", M: "New", Args: []any{g.lit(ec)}, EC: string(ec)})
		return base + 1, true
	case 'M': // Go map
		if g.r.Intn(3) == 0 {
			if id := g.pick(func(id int, o *obj) bool { return o.kind == "GoMap" }); id != 0 {
				return id, true
			}
		}
		var base = len(g.in.objs) + len(g.pre)
		var n = g.r.Intn(4)
		var ps = make([]any, n)
		for i := range ps {
			ps[i] = []any{g.r.Intn(g.dom + 1), g.r.Intn(3)}
		}
		g.pre = append(g.pre, Step{K: "GoMap", M: "New", Args: []any{ps}})
		return base + 1, true
	case 'L', 'T', 'C': // an existing List / Set / Catalog-or-Map-or-fresh association sequence
		var kind = map[byte]string{'L': "List", 'T': "Set", 'C': "Catalog"}[letter]
		var id = g.pick(func(id int, o *obj) bool {
			return (o.kind == kind || (letter == 'C' && o.kind == "Map")) && (letter == 'C' || o.ec == ec)
		})
		if id == 0 || (letter == 'C' && g.r.Intn(3) == 0) {
			if letter == 'C' {
				var base = len(g.in.objs) + len(g.pre)
				g.pre = append(g.pre, Step{K: "GoArray", M: "New", Args: []any{g.lit('A')}, EC: "A"},
					Step{K: "Array", M: "MakeFromArray", Args: []any{base + 1}, EC: "A"})
				return base + 2, true
			}
			return nil, false
		}
		return id, true
	}
	return nil, false
}

func (g *rgen[K, V]) run(st Step) bool {
	var line, ok = g.in.guarded(g.sid, st, g.wd, false)
	g.out(line)
	if !ok {
		g.alive = false
		return false
	}
	g.w = line.W
	return true
}

func wpick[T any](r *rand.Rand, items []T, weight func(T) int) T {
	var total = 0
	for _, it := range items {
		total += weight(it)
	}
	var x = r.Intn(total)
	for _, it := range items {
		x -= weight(it)
		if x < 0 {
			return it
		}
	}
	return items[len(items)-1]
}

// RunRandom executes one random history of the given family.
func (in *Interp[K, V]) RunRandom(family string, sid int, seed int64, steps int, maxLen int, out func(Line), wd time.Duration) bool {
	var fam, ok = families[family]
	if !ok {
		panic("unknown family " + family)
	}
	in.Reset()
	var g = &rgen[K, V]{in: in, r: rand.New(rand.NewSource(seed)), maxLen: maxLen, sid: sid, out: out, wd: wd, alive: true, w: []any{}}
	g.dom = []int{2, 4, 7, 12, 40}[g.r.Intn(5)]
	if g.dom > in.probe {
		g.dom = in.probe
	}
	out(Line{T: "reset", SID: sid, W: []any{}, Args: []any{}, R: map[string]any{"t": "none"}})
	var isPrimary = func(k string) bool {
		for _, p := range fam.primary {
			if p == k {
				return true
			}
		}
		return false
	}
	var maxObjs = 14
	for n := 0; n < steps && g.alive; n++ {
		g.pre = nil
		var st Step
		var okStep = false
		var nPrimary = 0
		for _, o := range in.objs {
			if isPrimary(o.kind) {
				nPrimary++
			}
		}
		var roomy = len(in.objs) < maxObjs
		switch {
		case nPrimary == 0 || (roomy && nPrimary < 3 && g.r.Intn(12) == 0):
			var c = wpick(g.r, fam.roots, func(c csig) int { return c.w })
			st, okStep = g.classCall(c)
		case roomy && len(fam.extra) > 0 && g.r.Intn(10) == 0:
			var c = wpick(g.r, fam.extra, func(c csig) int { return c.w })
			st, okStep = g.classCall(c)
		default:
			// a method call: mostly on primary objects
			var id = g.pick(func(id int, o *obj) bool { return isPrimary(o.kind) })
			if g.r.Intn(5) == 0 {
				id = g.pick(func(id int, o *obj) bool { return methods[o.kind] != nil })
			}
			if id == 0 {
				continue
			}
			var o = in.objs[id-1]
			var cands []sig
			for _, s := range methods[o.kind] {
				var creates = s.m == "AsArray" || s.m == "GetIterator" || s.m == "GetValues" || s.m == "RemoveValues" || s.m == "GetKeys"
				if creates && !roomy {
					continue
				}
				cands = append(cands, s)
			}
			var s = wpick(g.r, cands, func(s sig) int { return s.w })
			st = Step{K: o.kind, M: s.m, Self: id}
			okStep = true
			for i := 0; i < len(s.args); i++ {
				var a, ok = g.genArg(s.args[i], id, o.ec)
				if !ok {
					okStep = false
					break
				}
				st.Args = append(st.Args, a)
			}
			// keep sizes bounded
			if okStep && g.objLen(id) >= maxLen && (s.m == "InsertValue" || s.m == "AppendValue" || s.m == "InsertValues" || s.m == "AppendValues" || s.m == "AddValues") {
				okStep = false
			}
		}
		if !okStep || len(in.objs)+len(g.pre) >= maxObjs+3 {
			continue
		}
		for _, p := range g.pre {
			if !g.run(p) {
				return false
			}
		}
		if !g.run(st) {
			return false
		}
	}
	return g.alive
}

func (g *rgen[K, V]) classCall(c csig) (Step, bool) {
	var st = Step{K: c.k, M: c.m, EC: c.ec}
	if c.k == "Set" && c.args == "TT" {
		// set algebra is defined for operands ordered by the same collator
		var a, ok = g.genArg('T', 0, c.ec[0])
		if !ok {
			return st, false
		}
		var coll = g.w[a.(int)-1].(map[string]any)["c"]
		var b = g.pick(func(id int, o *obj) bool {
			return o.kind == "Set" && o.ec == c.ec[0] && g.w[id-1].(map[string]any)["c"] == coll
		})
		st.Args = []any{a, b}
		return st, b != 0
	}
	for i := 0; i < len(c.args); i++ {
		var a, ok = g.genArg(c.args[i], 0, c.ec[0])
		if !ok {
			return st, false
		}
		st.Args = append(st.Args, a)
	}
	return st, true
}
