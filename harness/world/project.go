package world

import (
	"fmt"
	"reflect"
	"sort"
	"strings"

	age "github.com/craterdog/go-collection-framework/v4/agent"
	col "github.com/craterdog/go-collection-framework/v4/collection"
)

// Project reads every live object through all of its views and returns the
// abstract world.  If the views of one object disagree among themselves the
// object is projected with an extra field "incoherent" (no specification
// state has it, so the step is rejected).
func (in *Interp[K, V]) Project() []any {
	in.textBad = nil
	var w = make([]any, len(in.objs))
	for i, o := range in.objs {
		w[i] = in.projectObj(o)
	}
	return w
}

func (in *Interp[K, V]) projectObj(o *obj) (res map[string]any) {
	defer func() {
		if r := recover(); r != nil {
			var _, msg = classify(r)
			res = map[string]any{"kind": o.kind, "s": []any{}, "broken": "projection panicked: " + msg}
		}
	}()
	switch o.kind {
	case "Catalog":
		in.markOwned(o)
		return in.projectCatalog(o)
	case "Map":
		return in.projectMap(o)
	case "GoMap":
		var m = o.v.(map[K]V)
		var ps [][]int
		for k, v := range m {
			ps = append(ps, []int{safeDec(in.kc, k), safeDec(in.vc, v)})
		}
		return map[string]any{"kind": "GoMap", "s": sortPairs(ps)}
	}
	switch o.ec {
	case 'V':
		return projectSeqObj(in, in.elV(), o)
	case 'K':
		return projectSeqObj(in, in.elK(), o)
	default:
		return projectSeqObj(in, in.elA(), o)
	}
}

func sortPairs(ps [][]int) []any {
	sort.Slice(ps, func(i, j int) bool {
		if ps[i][0] != ps[j][0] {
			return ps[i][0] < ps[j][0]
		}
		return ps[i][1] < ps[j][1]
	})
	var out = make([]any, len(ps))
	for i, p := range ps {
		out[i] = p
	}
	return out
}

func toks[E any](el *elem[E], arr []E) []any {
	var out = make([]any, len(arr))
	for i, e := range arr {
		out[i] = el.dec(e)
	}
	return out
}

func same(a, b []any) bool { return reflect.DeepEqual(a, b) }

// projectSeq reads a Sequential through AsArray only.
func projectSeq[E any](el *elem[E], s col.Sequential[E]) []any { return toks(el, s.AsArray()) }

// views cross-checks all read-only views of a Sequential[E].
func views[E any](el *elem[E], s col.Sequential[E]) (seq []any, bad string) {
	seq = toks(el, s.AsArray())
	var n = len(seq)
	if s.GetSize() != n {
		bad = fmt.Sprintf("GetSize()=%d but AsArray has %d values", s.GetSize(), n)
	}
	if s.IsEmpty() != (n == 0) {
		bad = fmt.Sprintf("IsEmpty()=%v with %d values", s.IsEmpty(), n)
	}
	var it = s.GetIterator()
	var fwd []any
	for guard := 0; it.HasNext() && guard <= n+1; guard++ {
		fwd = append(fwd, el.dec(it.GetNext()))
	}
	if fwd == nil {
		fwd = []any{}
	}
	if !same(fwd, seq) {
		bad = fmt.Sprintf("iterator yields %v but AsArray is %v", fwd, seq)
	}
	var bwd = make([]any, 0, n)
	for guard := 0; it.HasPrevious() && guard <= n+1; guard++ {
		bwd = append(bwd, el.dec(it.GetPrevious()))
	}
	for i, j := 0, len(bwd)-1; i < j; i, j = i+1, j-1 {
		bwd[i], bwd[j] = bwd[j], bwd[i]
	}
	if !same(bwd, seq) {
		bad = fmt.Sprintf("backward iteration yields %v but AsArray is %v", bwd, seq)
	}
	if acc, ok := s.(col.Accessible[E]); ok {
		for i := 1; i <= n; i++ {
			if !reflect.DeepEqual(el.dec(acc.GetValue(i)), seq[i-1]) || !reflect.DeepEqual(el.dec(acc.GetValue(i-n-1)), seq[i-1]) {
				bad = fmt.Sprintf("GetValue(%d) / GetValue(%d) disagree with AsArray %v", i, i-n-1, seq)
			}
		}
	}
	return seq, bad
}

// textView: String() must describe the same values, in the same order, as
// AsArray(): the body of the text is compared with the text of a fresh list
// made from AsArray() (the formatter writes every Sequential the same way).
func textView[E any](notation col.NotationLike, v any, arr []E) (bad string) {
	var st, ok = v.(fmt.Stringer)
	if !ok || len(arr) == 0 {
		return "" // the empty forms differ by kind ("[ ]", "[:]")
	}
	var body = func(text string) string {
		var i = strings.LastIndex(text, "(")
		if i < 0 {
			return text
		}
		return text[:i]
	}
	// the reference text; element types the notation cannot write (pointers) have none
	var want string
	var formattable = func() (ok bool) {
		defer func() {
			if recover() != nil {
				ok = false
			}
		}()
		want = body(notation.FormatValue(col.List[E](notation).MakeFromArray(arr)))
		return true
	}()
	if !formattable {
		return ""
	}
	defer func() {
		if r := recover(); r != nil {
			bad = fmt.Sprintf("String() panicked: %v", r)
		}
	}()
	var got = body(st.String())
	if got != want {
		return fmt.Sprintf("String() shows %q but AsArray() holds %q", clip(got), clip(want))
	}
	return ""
}

func clip(s string) string {
	s = strings.Join(strings.Fields(s), " ")
	if len(s) > 120 {
		return s[:120]
	}
	return s
}

func projectSeqObj[K comparable, V, E any](in *Interp[K, V], el *elem[E], o *obj) map[string]any {
	switch o.kind {
	case "GoArray":
		return map[string]any{"kind": "GoArray", "s": toks(el, *(o.v.(*[]E)))}
	case "Iter":
		var it = o.v.(age.IteratorLike[E])
		// walk a copy of the position: remember the slot, read everything, restore
		var slot = it.GetSlot()
		var n = it.GetSize()
		it.ToStart()
		var seq = make([]any, 0, n)
		for guard := 0; it.HasNext() && guard <= n+1; guard++ {
			seq = append(seq, el.dec(it.GetNext()))
		}
		it.ToSlot(slot)
		var res = map[string]any{"kind": "Iter", "s": seq, "slot": slot}
		if it.GetSlot() != slot {
			res["incoherent"] = fmt.Sprintf("ToSlot(%d) left the iterator at slot %d", slot, it.GetSlot())
		}
		if len(seq) != n || it.IsEmpty() != (n == 0) {
			res["incoherent"] = fmt.Sprintf("iterator GetSize()=%d IsEmpty()=%v but yields %d values", n, it.IsEmpty(), len(seq))
		}
		return res
	}
	var s, ok = o.v.(col.Sequential[E])
	if !ok {
		return map[string]any{"kind": o.kind, "s": []any{}, "broken": "not a Sequential"}
	}
	var seq, bad = views(el, s)
	if tb := textView(in.notation, o.v, s.AsArray()); tb != "" {
		in.textBad = append(in.textBad, o.kind+": "+tb) // a matter of C10 (text), not of the state
	}
	var res = map[string]any{"kind": o.kind, "s": seq}
	switch x := o.v.(type) {
	case col.SetLike[E]:
		res["c"] = collatorName(x.GetCollator())
	case col.StackLike[E]:
		res["cap"] = int(x.GetCapacity())
	case col.QueueLike[E]:
		res["cap"] = int(x.GetCapacity())
		res["closed"] = in.closed[o]
	}
	if bad != "" {
		res["incoherent"] = bad
	}
	return res
}

func (in *Interp[K, V]) projectCatalog(o *obj) map[string]any {
	var c = o.v.(col.CatalogLike[K, V])
	var bad string
	var arr = c.AsArray()
	var ps = make([]any, len(arr))
	var keys = make([]any, len(arr))
	for i, a := range arr {
		if isNilInterface(a) {
			ps[i] = []int{Unknown, Unknown}
			keys[i] = Unknown
			bad = "nil association in AsArray"
			continue
		}
		var k = safeDec(in.kc, a.GetKey())
		keys[i] = k
		ps[i] = []int{k, safeDec(in.vc, a.GetValue())}
		// the index must agree with the ordered view
		var viaIndex = safeDec(in.vc, c.GetValue(a.GetKey()))
		if viaIndex != ps[i].([]int)[1] {
			bad = fmt.Sprintf("GetValue(key %d)=%d but the ordered view holds %d", k, viaIndex, ps[i].([]int)[1])
		}
	}
	if got := projectSeq(in.elK(), c.GetKeys()); !same(got, keys) {
		bad = fmt.Sprintf("GetKeys()=%v but AsArray keys are %v", got, keys)
	}
	var _, vbad = views(in.elA(), col.Sequential[col.AssociationLike[K, V]](c))
	if vbad != "" {
		bad = vbad
	}
	if tb := textView(in.notation, o.v, arr); tb != "" {
		in.textBad = append(in.textBad, o.kind+": "+tb)
	}
	// no key outside the ordered view may be reachable through the index
	for t := 0; t <= in.probe; t++ {
		var present = false
		for _, k := range keys {
			if k == t {
				present = true
			}
		}
		if !present {
			if v := safeDec(in.vc, c.GetValue(in.kc.Enc(t))); v != 0 {
				bad = fmt.Sprintf("GetValue(absent key %d)=%d, not the zero value", t, v)
			}
		}
	}
	var res = map[string]any{"kind": "Catalog", "s": ps}
	if bad != "" {
		res["incoherent"] = bad
	}
	return res
}

func (in *Interp[K, V]) projectMap(o *obj) map[string]any {
	var m = o.v.(col.MapLike[K, V])
	var bad string
	var arr = m.AsArray()
	var ps = make([][]int, 0, len(arr))
	for _, a := range arr {
		if isNilInterface(a) {
			bad = "nil association in AsArray"
			continue
		}
		var k, v = safeDec(in.kc, a.GetKey()), safeDec(in.vc, a.GetValue())
		ps = append(ps, []int{k, v})
		if got := safeDec(in.vc, m.GetValue(a.GetKey())); got != v {
			bad = fmt.Sprintf("GetValue(key %d)=%d but AsArray holds %d", k, got, v)
		}
	}
	var sorted = sortPairs(ps)
	if m.GetSize() != len(arr) || m.IsEmpty() != (len(arr) == 0) {
		bad = fmt.Sprintf("GetSize()=%d IsEmpty()=%v with %d associations", m.GetSize(), m.IsEmpty(), len(arr))
	}
	// iterator and GetKeys hold the same associations (any order)
	var it = m.GetIterator()
	var viaIt [][]int
	for guard := 0; it.HasNext() && guard <= len(arr)+1; guard++ {
		var a = it.GetNext()
		if isNilInterface(a) {
			bad = "nil association from iterator"
			continue
		}
		viaIt = append(viaIt, []int{safeDec(in.kc, a.GetKey()), safeDec(in.vc, a.GetValue())})
	}
	if !same(sortPairs(viaIt), sorted) {
		bad = fmt.Sprintf("iterator yields %v but AsArray is %v", viaIt, sorted)
	}
	var ks []int
	for _, k := range projectSeq(in.elK(), m.GetKeys()) {
		ks = append(ks, k.(int))
	}
	sort.Ints(ks)
	if len(ks) != len(sorted) {
		bad = fmt.Sprintf("GetKeys() has %d keys, AsArray %d associations", len(ks), len(sorted))
	} else {
		for i, k := range ks {
			if sorted[i].([]int)[0] != k {
				bad = fmt.Sprintf("GetKeys()=%v disagrees with AsArray %v", ks, sorted)
			}
		}
	}
	for t := 0; t <= in.probe; t++ {
		var present = false
		for _, k := range ks {
			if k == t {
				present = true
			}
		}
		if !present {
			if v := safeDec(in.vc, m.GetValue(in.kc.Enc(t))); v != 0 {
				bad = fmt.Sprintf("GetValue(absent key %d)=%d, not the zero value", t, v)
			}
		}
	}
	var res = map[string]any{"kind": "Map", "s": sorted}
	if bad != "" {
		res["incoherent"] = bad
	}
	return res
}
