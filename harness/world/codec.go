// Package world is the conformance harness for the sequential specification
// spec/World.tla: it interprets scripts (sequences of public API calls with
// abstract arguments) on the real library, projects every live object back
// to the abstract world of the specification and writes one trace line per
// call for TLC to validate.
package world

import (
	"fmt"
	"reflect"
)

// A Codec maps abstract element tokens (0, 1, 2, ... with the natural order)
// to concrete Go values of one type and back.  Token 0 is the zero value of
// the type; the mapping is strictly monotone with respect to the library's
// default collator, so the abstract order *is* the concrete order.
type Codec[T any] struct {
	Name string
	Enc  func(tok int) T
	Dec  func(v T) int // Unknown (-9) if v is not the image of a token
}

const Unknown = -9

func IntCodec() Codec[int] {
	return Codec[int]{"int", func(t int) int { return t }, func(v int) int {
		if v < 0 {
			return Unknown
		}
		return v
	}}
}

func StringCodec() Codec[string] {
	return Codec[string]{"string",
		func(t int) string {
			if t == 0 {
				return ""
			}
			return fmt.Sprintf("s%04d", t)
		},
		func(v string) int {
			if v == "" {
				return 0
			}
			var t int
			if n, err := fmt.Sscanf(v, "s%04d", &t); n != 1 || err != nil || t <= 0 {
				return Unknown
			}
			return t
		}}
}

func FloatCodec() Codec[float64] {
	return Codec[float64]{"float64",
		func(t int) float64 { return float64(t) * 1.5 },
		func(v float64) int {
			var t = int(v / 1.5)
			if t < 0 || float64(t)*1.5 != v {
				return Unknown
			}
			return t
		}}
}

func RuneCodec() Codec[rune] {
	return Codec[rune]{"rune",
		func(t int) rune {
			if t == 0 {
				return 0
			}
			return rune(0x100 + t)
		},
		func(v rune) int {
			if v == 0 {
				return 0
			}
			if v <= 0x100 {
				return Unknown
			}
			return int(v - 0x100)
		}}
}

// AnyCodec: token 0 is nil (the zero value of `any`), other tokens are
// strings, so that every comparison is between values of one dynamic type.
func AnyCodec() Codec[any] {
	var s = StringCodec()
	return Codec[any]{"any",
		func(t int) any {
			if t == 0 {
				return nil
			}
			return s.Enc(t)
		},
		func(v any) int {
			if v == nil {
				return 0
			}
			if str, ok := v.(string); ok && str != "" {
				return s.Dec(str)
			}
			return Unknown
		}}
}

// SliceCodec: composite element type []int; token 0 is the nil slice, token t
// is [t/3, t%3] (lexicographic order = token order).
func SliceCodec() Codec[[]int] {
	return Codec[[]int]{"[]int",
		func(t int) []int {
			if t == 0 {
				return nil
			}
			return []int{t / 3, t % 3}
		},
		func(v []int) int {
			if v == nil {
				return 0
			}
			if len(v) != 2 || v[1] < 0 || v[1] > 2 || v[0] < 0 {
				return Unknown
			}
			var t = v[0]*3 + v[1]
			if t == 0 {
				return Unknown
			}
			return t
		}}
}

// SetCodec: the elements are themselves sets (C15: "sets of sets"); token 0 is
// the nil interface, token t is a fresh set {t/3, 10 + t%3}: the collator ranks
// sets as sequences, so the lexicographic order is the token order, and two
// encodings of one token are distinct objects with equal contents.
func SetCodec(mk func(a, b int) any, read func(v any) []int) Codec[any] {
	return Codec[any]{"set",
		func(t int) any {
			if t == 0 {
				return nil
			}
			return mk(t/3, 10+t%3)
		},
		func(v any) int {
			if v == nil {
				return 0
			}
			var a = read(v)
			if len(a) != 2 || a[0] < 0 || a[1] < 10 || a[1] > 12 {
				return Unknown
			}
			var t = a[0]*3 + a[1] - 10
			if t == 0 {
				return Unknown
			}
			return t
		}}
}

// PtrCodec: pointer keys.  Token 0 is the nil pointer; tokens 2i-1 and 2i
// (i >= 1) are two distinct pointers whose pointees are equal (content i), so
// the keys are distinct for the Go map but structurally equal for a collator.
type PtrTable struct {
	cells [64]int
}

func PtrCodec() Codec[*int] {
	var table = &PtrTable{}
	for i := range table.cells {
		table.cells[i] = (i + 1) / 2
	}
	return Codec[*int]{"*int",
		func(t int) *int {
			if t == 0 {
				return nil
			}
			return &table.cells[t]
		},
		func(v *int) int {
			if v == nil {
				return 0
			}
			for i := 1; i < len(table.cells); i++ {
				if v == &table.cells[i] {
					return i
				}
			}
			return Unknown
		}}
}

// safeDec decodes with a recover: a corrupted value must never kill the
// harness.
func safeDec[T any](c Codec[T], v T) (tok int) {
	defer func() {
		if recover() != nil {
			tok = Unknown
		}
	}()
	return c.Dec(v)
}

func isNilInterface(v any) bool {
	if v == nil {
		return true
	}
	var r = reflect.ValueOf(v)
	switch r.Kind() {
	case reflect.Pointer, reflect.Interface, reflect.Map, reflect.Slice:
		return r.IsNil()
	}
	return false
}
