package world

import (
	"encoding/json"
	"fmt"
	"runtime"
	"strings"
	"time"

	age "github.com/craterdog/go-collection-framework/v4/agent"
	cdc "github.com/craterdog/go-collection-framework/v4/cdcn"
	col "github.com/craterdog/go-collection-framework/v4/collection"
)

// Step is one call of a script.
type Step struct {
	K    string `json:"k"`    // kind (class) name
	M    string `json:"m"`    // method / constructor / function name
	Self int    `json:"self"` // object id of the receiver, 0 for class-level calls
	Args []any  `json:"args"` // ints, token pairs, literal sequences, names
	EC   string `json:"ec"`   // element class for class-level calls: "V", "K" or "A"
	NV   bool   `json:"nv"`   // unlogged step: do not look at the objects afterwards (no projection)
}

// Script is a history; steps before LogFrom are executed but only the world
// reached is logged (as a reset line).
type Script struct {
	ID      int    `json:"id"`
	Steps   []Step `json:"steps"`
	LogFrom int    `json:"log_from"`
	Pre     []any  `json:"pre"` // the model's pre-world of the first logged step (scripts that do not look before it)
}

// Line is one trace line.
type Line struct {
	T    string         `json:"t"` // "reset" | "call" | "skip"
	SID  int            `json:"sid"`
	K    string         `json:"k,omitempty"`
	M    string         `json:"m,omitempty"`
	Self int            `json:"self"`
	Args []any          `json:"args"`
	P    bool           `json:"p"`
	PC   string         `json:"pc"` // panic class: "", library, runtime, timeout, other
	PM   string         `json:"pm"` // panic message (truncated), informational
	R    map[string]any `json:"r"`  // tagged result
	W    []any          `json:"w"`  // projected world after the call
	Why  string         `json:"why,omitempty"`
	TV   string         `json:"tv,omitempty"` // String() views that disagree with AsArray() (judged by C10 only)
}

type obj struct {
	kind string
	ec   byte // 'V', 'K', 'A' (element class of sequences); 0 for maps
	v    any
}

// Interp executes scripts for one pair of key / value codecs.
type Interp[K comparable, V any] struct {
	kc       Codec[K]
	vc       Codec[V]
	notation col.NotationLike
	objs     []*obj
	owned    map[any]bool  // association objects known to belong to a catalog
	closed   map[*obj]bool // queues the script has closed
	probe    int           // keys 0..probe are probed for absence in maps
	NoSort   bool          // codec order is not strict: do not sort
	textBad  []string      // String() views that disagree with AsArray() in the last projection
}

func NewInterp[K comparable, V any](kc Codec[K], vc Codec[V]) *Interp[K, V] {
	return &Interp[K, V]{kc: kc, vc: vc, notation: cdc.Notation().Make(), probe: 12}
}

func (in *Interp[K, V]) Reset() {
	in.objs = nil
	in.owned = map[any]bool{}
	in.closed = map[*obj]bool{}
}

func (in *Interp[K, V]) add(kind string, ec byte, v any) map[string]any {
	in.objs = append(in.objs, &obj{kind, ec, v})
	return map[string]any{"t": "obj", "v": len(in.objs)}
}

// ---- element classes ---------------------------------------------------

// elem describes how tokens of one element class are concretised / projected.
type elem[E any] struct {
	cls byte
	enc func(tok any) E
	dec func(e E) any
}

func toInt(x any) int {
	switch n := x.(type) {
	case float64:
		return int(n)
	case int:
		return n
	case json.Number:
		var i, _ = n.Int64()
		return int(i)
	}
	panic(skip(fmt.Sprintf("not an integer: %v", x)))
}

func toSeq(x any) []any {
	if s, ok := x.([]any); ok {
		return s
	}
	panic(skip(fmt.Sprintf("not a sequence: %v", x)))
}

func (in *Interp[K, V]) elV() *elem[V] {
	return &elem[V]{'V', func(t any) V { return in.vc.Enc(toInt(t)) }, func(e V) any { return safeDec(in.vc, e) }}
}

func (in *Interp[K, V]) elK() *elem[K] {
	return &elem[K]{'K', func(t any) K { return in.kc.Enc(toInt(t)) }, func(e K) any { return safeDec(in.kc, e) }}
}

// Association tokens are integer codes (see World.tla): ACode(k, v) =
// 1000 + 32*k + (v+1); the nil association is token 0; v = -1 is "masked".
func ACode(k, v int) int {
	if k < 0 || v < -1 || v > 30 {
		return Unknown
	}
	return 1000 + 32*k + (v + 1)
}
func AKey(t int) int { return (t - 1000) / 32 }
func AVal(t int) int { return (t-1000)%32 - 1 }

func (in *Interp[K, V]) elA() *elem[col.AssociationLike[K, V]] {
	return &elem[col.AssociationLike[K, V]]{'A',
		func(t any) col.AssociationLike[K, V] {
			var c = toInt(t)
			if c == 0 {
				return nil
			}
			need(c >= 1000 && AVal(c) >= 0, "not an association token")
			return col.Association[K, V](in.notation).Make(in.kc.Enc(AKey(c)), in.vc.Enc(AVal(c)))
		},
		func(a col.AssociationLike[K, V]) (tok any) {
			defer func() {
				if recover() != nil {
					tok = Unknown
				}
			}()
			if isNilInterface(a) {
				return 0
			}
			var k = safeDec(in.kc, a.GetKey())
			if in.owned[a] {
				return ACode(k, -1)
			}
			return ACode(k, safeDec(in.vc, a.GetValue()))
		}}
}

// ---- panics ------------------------------------------------------------

type skip string // raised by the harness itself: the step cannot be executed

func classify(r any) (class, msg string) {
	switch x := r.(type) {
	case runtime.Error:
		return "runtime", x.Error()
	case string:
		return "library", x
	case error:
		return "other", x.Error()
	default:
		return "other", fmt.Sprint(r)
	}
}

// ---- execution ---------------------------------------------------------

// Exec performs one step on the real library.  It returns the trace line
// (without the world).
func (in *Interp[K, V]) Exec(sid int, st Step) (line Line) {
	line = Line{T: "call", SID: sid, K: st.K, M: st.M, Self: st.Self, Args: st.Args, R: map[string]any{"t": "none"}}
	if line.Args == nil {
		line.Args = []any{}
	}
	defer func() {
		if r := recover(); r != nil {
			if s, ok := r.(skip); ok {
				line.T = "skip"
				line.Why = string(s)
				return
			}
			line.P = true
			line.PC, line.PM = classify(r)
			if len(line.PM) > 160 {
				line.PM = line.PM[:160]
			}
			line.R = map[string]any{"t": "none"}
		}
	}()
	var res = in.dispatch(st)
	if res != nil {
		line.R = res
	}
	return line
}

func (in *Interp[K, V]) get(id int) *obj {
	if id < 1 || id > len(in.objs) {
		panic(skip(fmt.Sprintf("no object %d", id)))
	}
	return in.objs[id-1]
}

func need(cond bool, why string) {
	if !cond {
		panic(skip(why))
	}
}

func (in *Interp[K, V]) dispatch(st Step) map[string]any {
	var ec byte = 'V'
	if st.Self != 0 {
		var o = in.get(st.Self)
		need(o.kind == st.K, "receiver is a "+o.kind+", not a "+st.K)
		ec = o.ec
	} else if st.EC != "" {
		ec = st.EC[0]
	}
	switch st.K {
	case "Catalog", "Map", "GoMap":
		return in.execAssoc(st)
	}
	switch ec {
	case 'V':
		return execSeq(in, in.elV(), st)
	case 'K':
		return execSeq(in, in.elK(), st)
	case 'A':
		return execSeq(in, in.elA(), st)
	}
	panic(skip("unknown element class"))
}

// ---- running scripts with a watchdog -----------------------------------

type Runner interface {
	// RunScript executes a script and appends its trace lines to out.  It
	// returns false if a step did not return within the watchdog (the
	// process must then be abandoned: the goroutine cannot be killed).
	RunScript(sc Script, out func(Line), watchdog time.Duration) bool
	// RunRandom executes a random history (see rand.go).
	RunRandom(family string, sid int, seed int64, steps int, maxLen int, out func(Line), watchdog time.Duration) bool
}

func (in *Interp[K, V]) RunScript(sc Script, out func(Line), watchdog time.Duration) bool {
	in.Reset()
	var last = []any{}
	var skipped = false // an unlogged step was not executed (not available for this codec): the model's prediction does not apply
	for i, st := range sc.Steps {
		if i == sc.LogFrom {
			// the world reached by the unlogged prefix (as seen, or as the model has it)
			if sc.Pre != nil && i > 0 {
				if skipped {
					last = in.Project()
				} else {
					last = sc.Pre
				}
			}
			out(Line{T: "reset", SID: sc.ID, W: last, Args: []any{}, R: map[string]any{"t": "none"}})
		}
		var line, ok = in.guarded(sc.ID, st, watchdog, i < sc.LogFrom && st.NV)
		if i >= sc.LogFrom || !ok {
			if i < sc.LogFrom {
				out(Line{T: "reset", SID: sc.ID, W: last, Args: []any{}, R: map[string]any{"t": "none"}})
			}
			out(line)
		}
		if !ok {
			return false
		}
		if line.T == "skip" {
			skipped = true
		}
		last = line.W
	}
	return true
}

// guarded runs Exec plus the projection in a goroutine under a watchdog.
func (in *Interp[K, V]) guarded(sid int, st Step, watchdog time.Duration, noView bool) (Line, bool) {
	var done = make(chan Line, 1)
	go func() {
		var line = in.Exec(sid, st)
		if noView {
			// book-keeping of the harness only: which association objects catalogs hold
			for _, o := range in.objs {
				in.markOwned(o)
			}
			line.W = []any{}
		} else {
			line.W = in.Project()
			if len(in.textBad) > 0 {
				line.TV = strings.Join(in.textBad, " | ")
			}
		}
		done <- line
	}()
	select {
	case line := <-done:
		return line, true
	case <-time.After(watchdog):
		var line = Line{T: "call", SID: sid, K: st.K, M: st.M, Self: st.Self, Args: st.Args, P: true,
			PC: "timeout", PM: "call did not return within " + watchdog.String(),
			R: map[string]any{"t": "none"}, W: []any{}}
		if line.Args == nil {
			line.Args = []any{}
		}
		return line, false
	}
}

// ---- named rankers and collators ---------------------------------------

func rankTok(name string, a, b int) age.Rank {
	var cmp = func(x, y int) age.Rank {
		switch {
		case x < y:
			return age.LesserRank
		case x > y:
			return age.GreaterRank
		}
		return age.EqualRank
	}
	switch name {
	case "nat":
		return cmp(a, b)
	case "rev":
		return cmp(b, a)
	case "coarse":
		return cmp(a/2, b/2)
	case "const":
		return age.EqualRank
	case "lesser":
		return age.LesserRank
	case "greater":
		return age.GreaterRank
	case "odd":
		if (a+b)%2 == 1 {
			return age.LesserRank
		}
		return age.GreaterRank
	}
	panic(skip("unknown ranker " + name))
}

// keyTok is what a named ranker looks at: the token itself, or the key of an
// association token.
func keyTok(t any) int {
	if x, ok := t.(int); ok {
		if x >= 1000 {
			return AKey(x)
		}
		return x
	}
	return Unknown
}

// NamedCollator is a caller-supplied collator (total preorder on tokens).
type NamedCollator[V any] struct {
	Name  string
	dec   func(V) any
	Calls [][3]int // probe log: (value token, candidate token, rank)
}

func (c *NamedCollator[V]) GetClass() age.CollatorClassLike[V] { return nil }
func (c *NamedCollator[V]) GetDepth() int                      { return 0 }
func (c *NamedCollator[V]) GetMaximum() int                    { return 16 }
func (c *NamedCollator[V]) CompareValues(a, b V) bool {
	return rankTok(c.Name, keyTok(c.dec(a)), keyTok(c.dec(b))) == age.EqualRank
}
func (c *NamedCollator[V]) RankValues(a, b V) age.Rank {
	var x, y = keyTok(c.dec(a)), keyTok(c.dec(b))
	var r = rankTok(c.Name, x, y)
	if len(c.Calls) < 4096 {
		c.Calls = append(c.Calls, [3]int{x, y, int(r)})
	}
	return r
}

func lower(s string) string { return strings.ToLower(s) }
