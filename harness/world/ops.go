package world

import (
	"fmt"

	age "github.com/craterdog/go-collection-framework/v4/agent"
	col "github.com/craterdog/go-collection-framework/v4/collection"
)

func rTok(t any) map[string]any   { return map[string]any{"t": "tok", "v": t} }
func rInt(n int) map[string]any   { return map[string]any{"t": "int", "v": n} }
func rBool(b bool) map[string]any { return map[string]any{"t": "bool", "v": b} }
func rName(s string) map[string]any {
	return map[string]any{"t": "name", "v": s}
}

// sequential returns object id as a Sequential[E] (any kind that is one).
func sequential[K comparable, V, E any](in *Interp[K, V], el *elem[E], id int) col.Sequential[E] {
	var o = in.get(id)
	if s, ok := o.v.(col.Sequential[E]); ok {
		return s
	}
	panic(skip(fmt.Sprintf("object %d (%s) is not a Sequential of class %c", id, o.kind, el.cls)))
}

func goArray[K comparable, V, E any](in *Interp[K, V], id int) *[]E {
	var o = in.get(id)
	if p, ok := o.v.(*[]E); ok && o.kind == "GoArray" {
		return p
	}
	panic(skip(fmt.Sprintf("object %d (%s) is not a Go array of that class", id, o.kind)))
}

func ranker[E any](el *elem[E], name string) age.RankingFunction[E] {
	rankTok(name, 0, 0) // validates the name
	return func(a, b E) age.Rank { return rankTok(name, keyTok(el.dec(a)), keyTok(el.dec(b))) }
}

// newSeq registers a Sequential result under kind "Seq".
func newSeq[K comparable, V, E any](in *Interp[K, V], el *elem[E], s col.Sequential[E]) map[string]any {
	return in.add("Seq", el.cls, s)
}

// execSeq executes a step whose receiver (or result) is a sequence of
// element class E.
func execSeq[K comparable, V, E any](in *Interp[K, V], el *elem[E], st Step) map[string]any {
	var a = st.Args
	var arg = func(i int) any {
		need(i < len(a), "missing argument")
		return a[i]
	}
	var notation = in.notation

	if st.Self == 0 {
		switch st.K + "." + st.M {
		case "GoArray.NewNil":
			var arr []E // nil: an empty Go slice that was never made
			return in.add("GoArray", el.cls, &arr)
		case "GoArray.New":
			var lit = toSeq(arg(0))
			var arr = make([]E, len(lit))
			for i, t := range lit {
				arr[i] = el.enc(t)
			}
			return in.add("GoArray", el.cls, &arr)
		case "Array.Make":
			need(el.cls != 'A', "no zero association")
			return in.add("Array", el.cls, col.Array[E](notation).Make(uint(toInt(arg(0)))))
		case "Array.MakeFromArray":
			return in.add("Array", el.cls, col.Array[E](notation).MakeFromArray(*goArray[K, V, E](in, toInt(arg(0)))))
		case "Array.MakeFromSequence":
			return in.add("Array", el.cls, col.Array[E](notation).MakeFromSequence(sequential(in, el, toInt(arg(0)))))
		case "List.Make":
			return in.add("List", el.cls, col.List[E](notation).Make())
		case "List.MakeFromArray":
			return in.add("List", el.cls, col.List[E](notation).MakeFromArray(*goArray[K, V, E](in, toInt(arg(0)))))
		case "List.MakeFromSequence":
			return in.add("List", el.cls, col.List[E](notation).MakeFromSequence(sequential(in, el, toInt(arg(0)))))
		case "List.Concatenate":
			var x, ok1 = in.get(toInt(arg(0))).v.(col.ListLike[E])
			var y, ok2 = in.get(toInt(arg(1))).v.(col.ListLike[E])
			need(ok1 && ok2, "operands must be lists")
			return in.add("List", el.cls, col.List[E](notation).Concatenate(x, y))
		case "Set.Make":
			return in.add("Set", el.cls, col.Set[E](notation).Make())
		case "Set.MakeWithCollator":
			var name = arg(0).(string)
			rankTok(name, 0, 0)
			if name == "nat" {
				return in.add("Set", el.cls, col.Set[E](notation).MakeWithCollator(age.Collator[E]().Make()))
			}
			return in.add("Set", el.cls, col.Set[E](notation).MakeWithCollator(&NamedCollator[E]{Name: name, dec: el.dec}))
		case "Set.MakeFromArray":
			return in.add("Set", el.cls, col.Set[E](notation).MakeFromArray(*goArray[K, V, E](in, toInt(arg(0)))))
		case "Set.MakeFromSequence":
			return in.add("Set", el.cls, col.Set[E](notation).MakeFromSequence(sequential(in, el, toInt(arg(0)))))
		case "Set.And", "Set.Or", "Set.Sans", "Set.Xor":
			var x, ok1 = in.get(toInt(arg(0))).v.(col.SetLike[E])
			var y, ok2 = in.get(toInt(arg(1))).v.(col.SetLike[E])
			need(ok1 && ok2, "operands must be sets")
			var class = col.Set[E](notation)
			var r col.SetLike[E]
			switch st.M {
			case "And":
				r = class.And(x, y)
			case "Or":
				r = class.Or(x, y)
			case "Sans":
				r = class.Sans(x, y)
			case "Xor":
				r = class.Xor(x, y)
			}
			return in.add("Set", el.cls, r)
		case "Stack.Make":
			return in.add("Stack", el.cls, col.Stack[E](notation).Make())
		case "Stack.MakeWithCapacity":
			return in.add("Stack", el.cls, col.Stack[E](notation).MakeWithCapacity(uint(toInt(arg(0)))))
		case "Stack.MakeFromArray":
			return in.add("Stack", el.cls, col.Stack[E](notation).MakeFromArray(*goArray[K, V, E](in, toInt(arg(0)))))
		case "Stack.MakeFromSequence":
			return in.add("Stack", el.cls, col.Stack[E](notation).MakeFromSequence(sequential(in, el, toInt(arg(0)))))
		case "Queue.Make":
			return in.add("Queue", el.cls, col.Queue[E](notation).Make())
		case "Queue.MakeWithCapacity":
			return in.add("Queue", el.cls, col.Queue[E](notation).MakeWithCapacity(uint(toInt(arg(0)))))
		case "Queue.MakeFromArray":
			return in.add("Queue", el.cls, col.Queue[E](notation).MakeFromArray(*goArray[K, V, E](in, toInt(arg(0)))))
		case "Queue.MakeFromSequence":
			return in.add("Queue", el.cls, col.Queue[E](notation).MakeFromSequence(sequential(in, el, toInt(arg(0)))))
		}
		panic(skip("unknown class-level operation " + st.K + "." + st.M))
	}

	var o = in.get(st.Self)

	// client-owned Go array
	if o.kind == "GoArray" {
		var p = o.v.(*[]E)
		switch st.M {
		case "Poke":
			var pos = toInt(arg(0))
			need(pos >= 1 && pos <= len(*p), "poke position out of range")
			(*p)[pos-1] = el.enc(arg(1))
			return nil
		}
		panic(skip("unknown GoArray operation " + st.M))
	}

	if o.kind == "Iter" {
		var it = o.v.(age.IteratorLike[E])
		switch st.M {
		case "HasNext":
			return rBool(it.HasNext())
		case "HasPrevious":
			return rBool(it.HasPrevious())
		case "GetNext":
			return rTok(el.dec(it.GetNext()))
		case "GetPrevious":
			return rTok(el.dec(it.GetPrevious()))
		case "ToStart":
			it.ToStart()
			return nil
		case "ToEnd":
			it.ToEnd()
			return nil
		case "ToSlot":
			it.ToSlot(toInt(arg(0)))
			return nil
		case "GetSlot":
			return rInt(it.GetSlot())
		case "GetSize":
			return rInt(it.GetSize())
		case "IsEmpty":
			return rBool(it.IsEmpty())
		}
		panic(skip("unknown Iter operation " + st.M))
	}

	// Sequential[E]
	if s, ok := o.v.(col.Sequential[E]); ok {
		switch st.M {
		case "AsArray":
			var arr = s.AsArray()
			return in.add("GoArray", el.cls, &arr)
		case "GetIterator":
			return in.add("Iter", el.cls, s.GetIterator())
		case "GetSize":
			return rInt(s.GetSize())
		case "IsEmpty":
			return rBool(s.IsEmpty())
		}
	}
	// Accessible[E]
	if s, ok := o.v.(col.Accessible[E]); ok {
		switch st.M {
		case "GetValue":
			return rTok(el.dec(s.GetValue(toInt(arg(0)))))
		case "GetValues":
			return newSeq(in, el, s.GetValues(toInt(arg(0)), toInt(arg(1))))
		}
	}
	// Updatable[E]
	if s, ok := o.v.(col.Updatable[E]); ok {
		switch st.M {
		case "SetValue":
			s.SetValue(toInt(arg(0)), el.enc(arg(1)))
			return nil
		case "SetValues":
			s.SetValues(toInt(arg(0)), sequential(in, el, toInt(arg(1))))
			return nil
		}
	}
	// Sortable[E]
	if s, ok := o.v.(col.Sortable[E]); ok {
		switch st.M {
		case "SortValues":
			need(!in.NoSort, "codec order is not strict")
			s.SortValues()
			return nil
		case "SortValuesWithRanker":
			s.SortValuesWithRanker(ranker(el, arg(0).(string)))
			return nil
		case "ReverseValues":
			s.ReverseValues()
			return nil
		case "ShuffleValues":
			s.ShuffleValues()
			return nil
		}
	}
	// Expandable[E]
	if s, ok := o.v.(col.Expandable[E]); ok {
		switch st.M {
		case "InsertValue":
			need(toInt(arg(0)) >= 0, "slot is unsigned")
			s.InsertValue(uint(toInt(arg(0))), el.enc(arg(1)))
			return nil
		case "InsertValues":
			need(toInt(arg(0)) >= 0, "slot is unsigned")
			s.InsertValues(uint(toInt(arg(0))), sequential(in, el, toInt(arg(1))))
			return nil
		case "AppendValue":
			s.AppendValue(el.enc(arg(0)))
			return nil
		case "AppendValues":
			s.AppendValues(sequential(in, el, toInt(arg(0))))
			return nil
		case "RemoveValue":
			return rTok(el.dec(s.RemoveValue(toInt(arg(0)))))
		case "RemoveValues":
			return newSeq(in, el, s.RemoveValues(toInt(arg(0)), toInt(arg(1))))
		case "RemoveAll":
			s.RemoveAll()
			return nil
		}
	}
	// Flexible[E] (Set)
	if s, ok := o.v.(col.Flexible[E]); ok {
		switch st.M {
		case "AddValue":
			s.AddValue(el.enc(arg(0)))
			return nil
		case "AddValues":
			s.AddValues(sequential(in, el, toInt(arg(0))))
			return nil
		case "RemoveValue":
			s.RemoveValue(el.enc(arg(0)))
			return nil
		case "RemoveValues":
			s.RemoveValues(sequential(in, el, toInt(arg(0))))
			return nil
		case "RemoveAll":
			s.RemoveAll()
			return nil
		}
	}
	// Searchable[E]
	if s, ok := o.v.(col.Searchable[E]); ok {
		switch st.M {
		case "GetIndex", "ContainsValue", "ContainsAny", "ContainsAll":
			// searching compares structurally: with a codec whose distinct tokens
			// are structurally equal (pointer keys) the token found is not determined
			need(!(in.NoSort && el.cls == 'K'), "distinct key tokens are structurally equal for this codec")
		}
		switch st.M {
		case "GetIndex":
			return rInt(s.GetIndex(el.enc(arg(0))))
		case "ContainsValue":
			return rBool(s.ContainsValue(el.enc(arg(0))))
		case "ContainsAny":
			return rBool(s.ContainsAny(sequential(in, el, toInt(arg(0)))))
		case "ContainsAll":
			return rBool(s.ContainsAll(sequential(in, el, toInt(arg(0)))))
		}
	}
	if s, ok := o.v.(col.SetLike[E]); ok && st.M == "GetCollator" {
		return rName(collatorName(s.GetCollator()))
	}
	// Stack
	if s, ok := o.v.(col.StackLike[E]); ok {
		switch st.M {
		case "AddValue":
			s.AddValue(el.enc(arg(0)))
			return nil
		case "RemoveTop":
			return rTok(el.dec(s.RemoveTop()))
		case "RemoveAll":
			s.RemoveAll()
			return nil
		case "GetCapacity":
			return rInt(int(s.GetCapacity()))
		}
	}
	// Queue, quiescent fragment: never make a call that would block
	if s, ok := o.v.(col.QueueLike[E]); ok {
		var closed = in.closed[o]
		switch st.M {
		case "AddValue":
			need(!closed, "queue is closed")
			need(s.GetSize() < int(s.GetCapacity()) && len(s.AsArray()) < int(s.GetCapacity()), "queue is full: AddValue would block")
			s.AddValue(el.enc(arg(0)))
			return nil
		case "RemoveHead":
			need(closed || (s.GetSize() > 0 && len(s.AsArray()) > 0), "queue is empty and open: RemoveHead would block")
			var v, ok = s.RemoveHead()
			return map[string]any{"t": "tokok", "v": el.dec(v), "ok": ok}
		case "CloseQueue":
			need(!closed, "queue is already closed")
			s.CloseQueue()
			in.closed[o] = true
			return nil
		case "RemoveAll":
			need(!closed, "RemoveAll would reopen a closed queue")
			s.RemoveAll()
			return nil
		case "GetCapacity":
			return rInt(int(s.GetCapacity()))
		}
	}
	panic(skip("operation " + st.K + "." + st.M + " not available on object " + fmt.Sprint(st.Self)))
}

func collatorName[E any](c age.CollatorLike[E]) string {
	if n, ok := c.(*NamedCollator[E]); ok {
		return n.Name
	}
	return "nat"
}

// execAssoc executes steps on Catalog, Map and client-owned Go maps.
func (in *Interp[K, V]) execAssoc(st Step) map[string]any {
	var a = st.Args
	var arg = func(i int) any {
		need(i < len(a), "missing argument")
		return a[i]
	}
	var notation = in.notation
	var elA = in.elA()
	var elK = in.elK()
	var elV = in.elV()
	var assocArray = func(id int) []col.AssociationLike[K, V] {
		return *goArray[K, V, col.AssociationLike[K, V]](in, id)
	}
	var assocSeq = func(id int) col.Sequential[col.AssociationLike[K, V]] {
		var o = in.get(id)
		// value-reading consumers must not be given shared (masked) associations
		if o.kind != "Catalog" && o.kind != "Map" {
			for _, t := range projectSeq(elA, o.v.(col.Sequential[col.AssociationLike[K, V]])) {
				if c, ok := t.(int); !ok || c < 1000 || AVal(c) < 0 {
					panic(skip("operand holds shared, nil or unknown associations"))
				}
			}
		}
		return sequential(in, elA, id)
	}
	var goMap = func(id int) map[K]V {
		var o = in.get(id)
		if m, ok := o.v.(map[K]V); ok {
			return m
		}
		panic(skip("not a Go map"))
	}
	if st.Self == 0 {
		switch st.K + "." + st.M {
		case "GoMap.NewNil":
			var m map[K]V // nil: an empty Go map that was never made
			return in.add("GoMap", 0, m)
		case "GoMap.New":
			var m = map[K]V{}
			for _, p := range toSeq(arg(0)) {
				var kv = toSeq(p)
				m[in.kc.Enc(toInt(kv[0]))] = in.vc.Enc(toInt(kv[1]))
			}
			return in.add("GoMap", 0, m)
		case "Catalog.Make":
			return in.add("Catalog", 'A', col.Catalog[K, V](notation).Make())
		case "Catalog.MakeFromArray":
			for _, x := range assocArray(toInt(arg(0))) {
				need(!in.owned[x], "operand holds shared associations")
			}
			return in.add("Catalog", 'A', col.Catalog[K, V](notation).MakeFromArray(assocArray(toInt(arg(0)))))
		case "Catalog.MakeFromMap":
			return in.add("Catalog", 'A', col.Catalog[K, V](notation).MakeFromMap(goMap(toInt(arg(0)))))
		case "Catalog.MakeFromSequence":
			return in.add("Catalog", 'A', col.Catalog[K, V](notation).MakeFromSequence(assocSeq(toInt(arg(0)))))
		case "Catalog.Merge", "Catalog.Extract":
			var x, ok = in.get(toInt(arg(0))).v.(col.CatalogLike[K, V])
			need(ok, "operand must be a catalog")
			if st.M == "Merge" {
				var y, ok2 = in.get(toInt(arg(1))).v.(col.CatalogLike[K, V])
				need(ok2, "operand must be a catalog")
				return in.add("Catalog", 'A', col.Catalog[K, V](notation).Merge(x, y))
			}
			return in.add("Catalog", 'A', col.Catalog[K, V](notation).Extract(x, sequential(in, elK, toInt(arg(1)))))
		case "Map.Make":
			return in.add("Map", 'A', col.Map[K, V](notation).Make())
		case "Map.MakeFromArray":
			for _, x := range assocArray(toInt(arg(0))) {
				need(!in.owned[x], "operand holds shared associations")
			}
			return in.add("Map", 'A', col.Map[K, V](notation).MakeFromArray(assocArray(toInt(arg(0)))))
		case "Map.MakeFromMap":
			return in.add("Map", 'A', col.Map[K, V](notation).MakeFromMap(goMap(toInt(arg(0)))))
		case "Map.MakeFromSequence":
			return in.add("Map", 'A', col.Map[K, V](notation).MakeFromSequence(assocSeq(toInt(arg(0)))))
		}
		panic(skip("unknown class-level operation " + st.K + "." + st.M))
	}
	var o = in.get(st.Self)
	if o.kind == "GoMap" {
		var m = o.v.(map[K]V)
		switch st.M {
		case "Poke":
			m[in.kc.Enc(toInt(arg(0)))] = in.vc.Enc(toInt(arg(1)))
			return nil
		case "Delete":
			delete(m, in.kc.Enc(toInt(arg(0))))
			return nil
		}
		panic(skip("unknown GoMap operation"))
	}
	// Sequential / Sortable views of catalogs and maps are sequences of associations
	switch st.M {
	case "AsArray", "GetIterator", "GetSize", "IsEmpty",
		"SortValues", "SortValuesWithRanker", "ReverseValues", "ShuffleValues":
		if st.M == "SortValues" {
			need(!in.NoSort, "codec order is not strict")
		}
		in.markOwned(o)
		return execSeq(in, elA, st)
	}
	var s, ok = o.v.(col.Associative[K, V])
	need(ok, "not associative")
	switch st.M {
	case "GetValue":
		return rTok(elV.dec(s.GetValue(in.kc.Enc(toInt(arg(0))))))
	case "SetValue":
		s.SetValue(in.kc.Enc(toInt(arg(0))), in.vc.Enc(toInt(arg(1))))
		return nil
	case "RemoveValue":
		return rTok(elV.dec(s.RemoveValue(in.kc.Enc(toInt(arg(0))))))
	case "RemoveAll":
		s.RemoveAll()
		return nil
	case "GetKeys":
		return newSeq(in, elK, s.GetKeys())
	case "GetValues":
		return newSeq(in, elV, s.GetValues(sequential(in, elK, toInt(arg(0)))))
	case "RemoveValues":
		return newSeq(in, elV, s.RemoveValues(sequential(in, elK, toInt(arg(0)))))
	}
	panic(skip("operation " + st.K + "." + st.M + " not available"))
}

// markOwned records the association objects currently held by a catalog:
// from now on they are projected with a masked value wherever else they
// appear (they are shared by design).
func (in *Interp[K, V]) markOwned(o *obj) {
	if o.kind != "Catalog" {
		return
	}
	defer func() { recover() }()
	for _, x := range o.v.(col.CatalogLike[K, V]).AsArray() {
		if !isNilInterface(x) {
			in.owned[x] = true
		}
	}
}
