package main

import (
	"encoding/json"
	"flag"
	"fmt"
	"os"
	"strconv"
	"strings"

	"verif/harness/indepx"
)

func init() {
	extras["indep-run"] = indepRun
}

// indep-run: concurrent runs of every pair of operation families on disjoint
// instances against their sequential results, and the registry first-use races.
func indepRun(args []string) {
	var fs = flag.NewFlagSet("indep-run", flag.ExitOnError)
	var out = fs.String("out", "", "pair results (ndjson)")
	var regout = fs.String("registry", "", "registry trials (ndjson)")
	var traces = fs.String("traces", "", "world traces of the concurrent mutate runs (ndjson)")
	var rounds = fs.Int("rounds", 3, "rounds per pair and goroutine count")
	var seed = fs.Int64("seed", 1, "seed")
	var gs = fs.String("goroutines", "2,4,16", "goroutine counts")
	fs.Parse(args)
	var counts []int
	for _, t := range strings.Split(*gs, ",") {
		var n, _ = strconv.Atoi(t)
		if n > 0 {
			counts = append(counts, n)
		}
	}
	var sk = newSink(*out, false)
	var rk = newSink(*regout, false)
	var tf, _ = os.Create(*traces)
	indepx.Registry(8, func(t indepx.Trial) { rk.put(t) })
	var names = indepx.FamilyNames()
	for i, f1 := range names {
		for _, f2 := range names[i:] {
			for _, g := range counts {
				for r := 0; r < *rounds; r++ {
					var res = indepx.Pair(f1, f2, g, r, *seed)
					sk.put(res)
					for _, t := range res.Traces {
						// a JSON array of trace lines -> ndjson
						writeLines(tf, t)
					}
				}
			}
		}
	}
	sk.close()
	rk.close()
	tf.Close()
	fmt.Printf("DONE pairs=%d trials=%d\n", sk.n, rk.n)
}

func writeLines(f *os.File, arr string) {
	var lines []json.RawMessage
	if json.Unmarshal([]byte(arr), &lines) != nil {
		return
	}
	for _, l := range lines {
		f.Write(l)
		f.Write([]byte("\n"))
	}
}
