package main

// extra dispatches the subcommands of the other engines (queue scheduler,
// collator tables, cdcn, ...); they register themselves here.
var extras = map[string]func([]string){}

func extra(name string, args []string) bool {
	if f, ok := extras[name]; ok {
		f(args)
		return true
	}
	return false
}
