//go:build !verif

package main

import "math/rand"

func perturbScheduling(r *rand.Rand) func(on bool) { return nil }
