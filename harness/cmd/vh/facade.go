package main

import (
	"bufio"
	"encoding/json"
	"flag"
	"fmt"
	"os"

	"verif/harness/facadex"
)

func init() {
	extras["facade-run"] = facadeRun
}

func facadeRun(args []string) {
	var fs = flag.NewFlagSet("facade-run", flag.ExitOnError)
	var cells = fs.String("cells", "", "cells (ndjson)")
	var out = fs.String("out", "", "records (ndjson)")
	fs.Parse(args)
	var f, err = os.Open(*cells)
	if err != nil {
		fmt.Fprintln(os.Stderr, err)
		os.Exit(2)
	}
	var sc = bufio.NewScanner(f)
	var sk = newSink(*out, false)
	var ti64 = &facadex.T[int64]{Name: "int64", Enc: func(i int) int64 { return int64(i) }, Dec: func(v int64) int { return int(v) }}
	var tu64 = &facadex.T[uint64]{Name: "uint64", Enc: func(i int) uint64 { return uint64(i) }, Dec: func(v uint64) int { return int(v) }}
	var tf64 = &facadex.T[float64]{Name: "float64", Enc: func(i int) float64 {
		if i == 0 {
			return 0
		}
		return float64(i) + 0.5
	}, Dec: func(v float64) int { return int(v) }}
	var tstr = &facadex.T[string]{Name: "string", Enc: func(i int) string {
		if i == 0 {
			return "" // token 0 is the zero value
		}
		return fmt.Sprintf("s%02d", i)
	}, Dec: func(v string) int {
		var i int
		fmt.Sscanf(v, "s%02d", &i)
		return i
	}}
	var trune = &facadex.T[rune]{Name: "rune", Enc: func(i int) rune {
		if i == 0 {
			return 0
		}
		return rune('a' + i)
	}, Dec: func(v rune) int {
		if v == 0 {
			return 0
		}
		return int(v - 'a')
	}}
	var tbool = &facadex.T[bool]{Name: "bool", Enc: func(i int) bool { return i%2 == 0 }, Dec: func(v bool) int {
		if v {
			return 2
		}
		return 1
	}}
	var tany = &facadex.T[any]{Name: "any", Enc: func(i int) any {
		if i == 0 {
			return "" // an empty string inside an `any`
		}
		return int64(i)
	}, Dec: func(v any) int {
		if x, ok := v.(int64); ok {
			return int(x)
		}
		if x, ok := v.(string); ok && x == "" {
			return 0
		}
		return -9
	}}
	for sc.Scan() {
		var c facadex.Cell
		if err := json.Unmarshal(sc.Bytes(), &c); err != nil {
			fmt.Fprintln(os.Stderr, "bad cell:", err)
			os.Exit(2)
		}
		sk.put(facadex.Run(ti64, c))
		sk.put(facadex.Run(tu64, c))
		sk.put(facadex.Run(tf64, c))
		sk.put(facadex.Run(tstr, c))
		sk.put(facadex.Run(trune, c))
		if c.N <= 2 || c.Kind == "Association" {
			sk.put(facadex.Run(tbool, c)) // two values only: repeated keys / members beyond that
		}
		sk.put(facadex.Run(tany, c))
	}
	sk.close()
	fmt.Printf("DONE records=%d\n", sk.n)
}
