//go:build verif

package main

import (
	"math/rand"
	"runtime"
	"sync"
	"time"

	col "github.com/craterdog/go-collection-framework/v4/collection"
)

// perturbScheduling returns a switch that makes the queue hooks yield or
// sleep at random, which shuffles the interleaving of the scanner and the
// parser goroutines (they communicate through a queue).
func perturbScheduling(r *rand.Rand) func(on bool) {
	var mu sync.Mutex
	var rr = rand.New(rand.NewSource(r.Int63()))
	return func(on bool) {
		if !on {
			col.VerifSetHandler(nil)
			return
		}
		col.VerifSetHandler(&col.VerifHandler{Yield: func(event int, queue any, ch chan bool) {
			mu.Lock()
			var x = rr.Intn(6)
			mu.Unlock()
			switch x {
			case 0:
				runtime.Gosched()
			case 1:
				time.Sleep(time.Duration(x) * time.Microsecond)
			}
		}})
	}
}
