package main

import (
	"bufio"
	"encoding/json"
	"flag"
	"fmt"
	"os"
	"runtime/debug"
	"time"

	"verif/harness/agentx"
)

func init() {
	extras["sort-run"] = sortRun
}

// sort-run: run the sorter and the Sort/Reverse/Shuffle methods on the inputs
// of -inputs (one JSON array per line) plus -random seeded long arrays.
func sortRun(args []string) {
	var fs = flag.NewFlagSet("sort-run", flag.ExitOnError)
	var inputs = fs.String("inputs", "", "ndjson of arrays")
	var out = fs.String("out", "", "records (ndjson)")
	var random = fs.Int("random", 0, "number of random arrays")
	var maxLen = fs.Int("maxlen", 5000, "maximum length of random arrays")
	var seed = fs.Int64("seed", 1, "seed")
	fs.Parse(args)
	var arrays [][]int
	if *inputs != "" {
		var f, err = os.Open(*inputs)
		if err != nil {
			fmt.Fprintln(os.Stderr, err)
			os.Exit(2)
		}
		var sc = bufio.NewScanner(f)
		sc.Buffer(make([]byte, 1<<20), 1<<26)
		for sc.Scan() {
			var a []int
			if err := json.Unmarshal(sc.Bytes(), &a); err != nil {
				fmt.Fprintln(os.Stderr, "bad input:", err)
				os.Exit(2)
			}
			arrays = append(arrays, a)
		}
	}
	arrays = append(arrays, agentx.RandomArrays(*seed, *random, *maxLen)...)
	var sk = newSink(*out, false)
	var dead = 0
	var reused = agentx.NewReused()
	for _, a := range arrays {
		if !reused.Run(a, func(r agentx.SortRec) { sk.put(r) }, 5*time.Second) {
			dead++
		}
		if !agentx.SortAll(a, func(r agentx.SortRec) { sk.put(r) }, 5*time.Second) {
			dead++
			if dead > 3 {
				break
			}
		}
	}
	sk.close()
	fmt.Printf("DONE arrays=%d records=%d timeouts=%d\n", len(arrays), sk.n, dead)
}

func init() {
	extras["collate-tables"] = collateTables
	extras["collate-cyclic"] = collateCyclic
}

func readUniverse(path string) agentx.Universe {
	var u = agentx.Universe{}
	var f, err = os.Open(path)
	if err != nil {
		fmt.Fprintln(os.Stderr, err)
		os.Exit(2)
	}
	var sc = bufio.NewScanner(f)
	sc.Buffer(make([]byte, 1<<20), 1<<26)
	for sc.Scan() {
		var x struct {
			U string      `json:"u"`
			D agentx.Desc `json:"d"`
		}
		if err := json.Unmarshal(sc.Bytes(), &x); err != nil {
			fmt.Fprintln(os.Stderr, "bad universe line:", err)
			os.Exit(2)
		}
		u[x.U] = append(u[x.U], x.D)
	}
	return u
}

// collate-tables: rank / compare tables of the real collator over the leaf
// corner values and the structural universe exported by TLC.
func collateTables(args []string) {
	var fs = flag.NewFlagSet("collate-tables", flag.ExitOnError)
	var univ = fs.String("universe", "", "universe (ndjson)")
	var out = fs.String("out", "", "tables (ndjson)")
	fs.Parse(args)
	var sk = newSink(*out, false)
	agentx.LeafTables(func(t agentx.Table) { sk.put(t) })
	agentx.StructTables(readUniverse(*univ), func(t agentx.Table) { sk.put(t) })
	sk.close()
	fmt.Printf("DONE tables=%d\n", sk.n)
}

// collate-cyclic: self-containing values (run in a process of its own).
func collateCyclic(args []string) {
	var fs = flag.NewFlagSet("collate-cyclic", flag.ExitOnError)
	var univ = fs.String("universe", "", "universe (ndjson)")
	var out = fs.String("out", "", "tables (ndjson)")
	var cases = fs.String("cases", "", "cyclic case results (ndjson)")
	fs.Parse(args)
	debug.SetMaxStack(256 << 20)
	var sk = newSink(*out, false)
	var ck = newSink(*cases, false)
	agentx.Cyclic(readUniverse(*univ), func(c agentx.CyclicResult) { ck.put(c); ck.w.Flush() }, func(t agentx.Table) { sk.put(t) })
	sk.close()
	ck.close()
	fmt.Printf("DONE tables=%d cases=%d\n", sk.n, ck.n)
}
