package main

import (
	"bufio"
	"encoding/json"
	"flag"
	"fmt"
	"os"
	"time"

	"verif/harness/qstress"
)

func init() {
	extras["queue-stress"] = queueStress
	extras["pipe-stress"] = pipeStress
	extras["queue-programs"] = queuePrograms
}

// pipe-stress: free-running Fork / Split / Join pipelines.
func pipeStress(args []string) {
	var fs = flag.NewFlagSet("pipe-stress", flag.ExitOnError)
	var out = fs.String("out", "", "result file (ndjson)")
	var n = fs.Int("n", 100, "runs")
	var seed = fs.Int64("seed", 1, "seed")
	var deadline = fs.Duration("deadline", 5*time.Second, "per-run deadline")
	fs.Parse(args)
	var f, _ = os.Create(*out)
	var w = bufio.NewWriter(f)
	var notDone = 0
	for i := 0; i < *n; i++ {
		var r = qstress.Pipeline(i, *seed*104729+int64(i), *deadline)
		if !r.Done {
			notDone++
		}
		var b, _ = json.Marshal(r)
		w.Write(b)
		w.WriteByte('\n')
		if notDone > 4 {
			break
		}
	}
	w.Flush()
	f.Close()
	fmt.Printf("DONE runs=%d notdone=%d\n", *n, notDone)
}

// queue-stress: free-running well-formed producer/consumer programs.
func queueStress(args []string) {
	var fs = flag.NewFlagSet("queue-stress", flag.ExitOnError)
	var out = fs.String("out", "", "result file (ndjson)")
	var n = fs.Int("n", 100, "runs")
	var seed = fs.Int64("seed", 1, "seed")
	var deadline = fs.Duration("deadline", 3*time.Second, "per-run deadline")
	fs.Parse(args)
	var f, _ = os.Create(*out)
	var w = bufio.NewWriter(f)
	var notDone = 0
	for i := 0; i < *n; i++ {
		var r = qstress.WellFormed(i, *seed*7919+int64(i), *deadline)
		if !r.Done {
			notDone++
		}
		var b, _ = json.Marshal(r)
		w.Write(b)
		w.WriteByte('\n')
		if notDone > 5 {
			break // every stuck run leaks goroutines and costs a deadline
		}
	}
	w.Flush()
	f.Close()
	fmt.Printf("DONE runs=%d notdone=%d\n", *n, notDone)
}

// queue-programs: the model-checked client programs, free-running, n times each.
func queuePrograms(args []string) {
	var fs = flag.NewFlagSet("queue-programs", flag.ExitOnError)
	var progs = fs.String("progs", "", "programs (JSON array)")
	var out = fs.String("out", "", "result file (ndjson)")
	var n = fs.Int("n", 20, "runs per program")
	var seed = fs.Int64("seed", 1, "seed")
	var deadline = fs.Duration("deadline", 250*time.Millisecond, "no-progress interval")
	fs.Parse(args)
	var data, err = os.ReadFile(*progs)
	var list []qstress.Program
	if err != nil || json.Unmarshal(data, &list) != nil {
		fmt.Fprintln(os.Stderr, "cannot read programs")
		os.Exit(2)
	}
	var f, _ = os.Create(*out)
	var w = bufio.NewWriter(f)
	var total, notDone = 0, 0
	for pi, prog := range list {
		var stuck = 0
		for i := 0; i < *n && stuck < 3; i++ {
			var r = qstress.RunProgram(pi*10000+i, prog, *seed*6151+int64(pi*1000+i), *deadline)
			if !r.Done {
				stuck++
				notDone++
			}
			total++
			var b, _ = json.Marshal(map[string]any{"prog": prog.Name, "run": r})
			w.Write(b)
			w.WriteByte('\n')
		}
	}
	w.Flush()
	f.Close()
	fmt.Printf("DONE runs=%d notdone=%d\n", total, notDone)
}
