// vh: conformance harness between the TLA+ specifications in /verif/spec and
// the real library in /repo/v4.
package main

import (
	"bufio"
	"encoding/json"
	"flag"
	"fmt"
	"os"
	"time"

	cdc "github.com/craterdog/go-collection-framework/v4/cdcn"
	col "github.com/craterdog/go-collection-framework/v4/collection"
	"verif/harness/world"
)

func runners() map[string]world.Runner {
	var ptr = world.NewInterp(world.PtrCodec(), world.IntCodec())
	ptr.NoSort = true
	var inner = cdc.Notation().Make()
	var sets = world.SetCodec(
		func(a, b int) any { return col.Set[int](inner).MakeFromArray([]int{a, b}) },
		func(v any) []int {
			if s, ok := v.(col.SetLike[int]); ok {
				return s.AsArray()
			}
			return nil
		})
	return map[string]world.Runner{
		"set":     world.NewInterp(world.IntCodec(), sets),
		"int":     world.NewInterp(world.IntCodec(), world.IntCodec()),
		"string":  world.NewInterp(world.StringCodec(), world.StringCodec()),
		"float64": world.NewInterp(world.FloatCodec(), world.FloatCodec()),
		"rune":    world.NewInterp(world.RuneCodec(), world.RuneCodec()),
		"any":     world.NewInterp(world.AnyCodec(), world.AnyCodec()),
		"slice":   world.NewInterp(world.IntCodec(), world.SliceCodec()),
		"ptr":     ptr,
	}
}

func main() {
	if len(os.Args) < 2 {
		fmt.Fprintln(os.Stderr, "usage: vh <world-run|world-rand|...> [flags]")
		os.Exit(2)
	}
	// keep one timer-driven goroutine alive: a replay may leave every other
	// goroutine blocked, which the runtime would report as a fatal deadlock
	go func() {
		for {
			time.Sleep(time.Hour)
		}
	}()
	switch os.Args[1] {
	case "world-run":
		worldRun(os.Args[2:])
	case "world-rand":
		worldRand(os.Args[2:])
	default:
		if !extra(os.Args[1], os.Args[2:]) {
			fmt.Fprintln(os.Stderr, "unknown subcommand", os.Args[1])
			os.Exit(2)
		}
	}
}

type sink struct {
	w *bufio.Writer
	f *os.File
	n int
}

func newSink(path string, appendTo bool) *sink {
	var flags = os.O_CREATE | os.O_WRONLY | os.O_TRUNC
	if appendTo {
		flags = os.O_CREATE | os.O_WRONLY | os.O_APPEND
	}
	var f, err = os.OpenFile(path, flags, 0o644)
	if err != nil {
		fmt.Fprintln(os.Stderr, err)
		os.Exit(2)
	}
	return &sink{w: bufio.NewWriterSize(f, 1<<20), f: f}
}

func (s *sink) put(v any) {
	if l, ok := v.(world.Line); ok && l.R == nil {
		l.R = map[string]any{"t": "none"}
		v = l
	}
	var b, err = json.Marshal(v)
	if err != nil {
		fmt.Fprintln(os.Stderr, "marshal:", err)
		os.Exit(2)
	}
	s.w.Write(b)
	s.w.WriteByte('\n')
	s.n++
}

func (s *sink) close() { s.w.Flush(); s.f.Close() }

// world-run: execute scripts (one JSON object per line) from -scripts starting
// at line -start, append trace lines to -out.  Exit 0: all done.  Exit 3: a
// call did not return; the index of the next script to run is printed as
// "RESUME <n>".
func worldRun(args []string) {
	var fs = flag.NewFlagSet("world-run", flag.ExitOnError)
	var scripts = fs.String("scripts", "", "script file (ndjson)")
	var out = fs.String("out", "", "trace file (ndjson)")
	var codec = fs.String("codec", "int", "element codec")
	var start = fs.Int("start", 0, "first script (0-based line)")
	var wd = fs.Duration("watchdog", 5*time.Second, "per-call watchdog")
	fs.Parse(args)
	var r, ok = runners()[*codec]
	if !ok {
		fmt.Fprintln(os.Stderr, "unknown codec", *codec)
		os.Exit(2)
	}
	var f, err = os.Open(*scripts)
	if err != nil {
		fmt.Fprintln(os.Stderr, err)
		os.Exit(2)
	}
	var sc = bufio.NewScanner(f)
	sc.Buffer(make([]byte, 1<<20), 1<<26)
	var sk = newSink(*out, *start > 0)
	var n = 0
	for sc.Scan() {
		if n < *start {
			n++
			continue
		}
		var script world.Script
		if err := json.Unmarshal(sc.Bytes(), &script); err != nil {
			fmt.Fprintln(os.Stderr, "bad script line", n, err)
			os.Exit(2)
		}
		n++
		if !r.RunScript(script, func(l world.Line) { sk.put(l) }, *wd) {
			sk.close()
			fmt.Printf("RESUME %d\n", n)
			os.Exit(3)
		}
	}
	sk.close()
	fmt.Printf("DONE scripts=%d lines=%d\n", n-*start, sk.n)
}

// world-rand: run -n random histories of -steps calls each.
func worldRand(args []string) {
	var fs = flag.NewFlagSet("world-rand", flag.ExitOnError)
	var out = fs.String("out", "", "trace file (ndjson)")
	var codec = fs.String("codec", "int", "element codec")
	var family = fs.String("family", "list", "operation family")
	var seed = fs.Int64("seed", 1, "seed")
	var n = fs.Int("n", 10, "number of histories")
	var steps = fs.Int("steps", 100, "calls per history")
	var maxLen = fs.Int("maxlen", 12, "soft bound on sequence lengths")
	var start = fs.Int("start", 0, "first history")
	var wd = fs.Duration("watchdog", 5*time.Second, "per-call watchdog")
	fs.Parse(args)
	var r, ok = runners()[*codec]
	if !ok {
		fmt.Fprintln(os.Stderr, "unknown codec", *codec)
		os.Exit(2)
	}
	var sk = newSink(*out, *start > 0)
	for i := *start; i < *n; i++ {
		if !r.RunRandom(*family, i, *seed*1000003+int64(i), *steps, *maxLen, func(l world.Line) { sk.put(l) }, *wd) {
			sk.close()
			fmt.Printf("RESUME %d\n", i+1)
			os.Exit(3)
		}
	}
	sk.close()
	fmt.Printf("DONE histories=%d lines=%d\n", *n-*start, sk.n)
}
