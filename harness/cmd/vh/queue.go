//go:build verif

package main

import (
	"bufio"
	"encoding/json"
	"flag"
	"fmt"
	"os"
	"time"

	"verif/harness/qsched"
)

func init() {
	extras["queue-replay"] = queueReplay
}

// queue-replay: force TLC-generated schedules onto the real queue.
func queueReplay(args []string) {
	var fs = flag.NewFlagSet("queue-replay", flag.ExitOnError)
	var jobf = fs.String("job", "", "job file (json)")
	var out = fs.String("out", "", "result file (ndjson)")
	var timeout = fs.Duration("timeout", 2*time.Second, "per-step timeout")
	fs.Parse(args)
	var data, err = os.ReadFile(*jobf)
	if err != nil {
		fmt.Fprintln(os.Stderr, err)
		os.Exit(2)
	}
	var job qsched.Job
	if err := json.Unmarshal(data, &job); err != nil {
		fmt.Fprintln(os.Stderr, "bad job:", err)
		os.Exit(2)
	}
	var f, _ = os.Create(*out)
	var w = bufio.NewWriter(f)
	var counts = map[string]int{}
	var aborted = false
	for i, sc := range job.Schedules {
		if !aborted && counts["drift"] > 20 && counts["drift"]*2 > i {
			aborted = true
		}
		if aborted {
			// the schedules are not realisable on this code (the synchronisation
			// structure differs from the model): every further one costs a timeout
			counts["skipped"]++
			var b, _ = json.Marshal(qsched.Result{ID: sc.ID, Status: "skipped", Detail: "too many unrealisable schedules"})
			w.Write(b)
			w.WriteByte('\n')
			continue
		}
		var r = qsched.RunSchedule(&job, sc, *timeout)
		counts[r.Status]++
		var b, _ = json.Marshal(r)
		w.Write(b)
		w.WriteByte('\n')
	}
	w.Flush()
	f.Close()
	fmt.Printf("DONE schedules=%d ok=%d drift=%d stuck=%d\n", len(job.Schedules), counts["ok"], counts["drift"], counts["stuck"])
}

func init() {
	extras["pipe-replay"] = pipeReplay
}

// pipe-replay: force call-level schedules of spec/Pipes.tla onto the real
// Fork / Split / Join pipelines.
func pipeReplay(args []string) {
	var fs = flag.NewFlagSet("pipe-replay", flag.ExitOnError)
	var jobf = fs.String("job", "", "job file (json)")
	var out = fs.String("out", "", "result file (ndjson)")
	var timeout = fs.Duration("timeout", 500*time.Millisecond, "per-step timeout")
	fs.Parse(args)
	var data, err = os.ReadFile(*jobf)
	if err != nil {
		fmt.Fprintln(os.Stderr, err)
		os.Exit(2)
	}
	var job qsched.PJob
	if err := json.Unmarshal(data, &job); err != nil {
		fmt.Fprintln(os.Stderr, "bad job:", err)
		os.Exit(2)
	}
	var f, _ = os.Create(*out)
	var w = bufio.NewWriter(f)
	var counts = map[string]int{}
	var aborted = false
	for i, sc := range job.Schedules {
		if !aborted && counts["drift"] > 20 && counts["drift"]*2 > i {
			aborted = true
		}
		var r qsched.PResult
		if aborted {
			r = qsched.PResult{ID: sc.ID, Status: "skipped"}
		} else {
			r = qsched.RunPipeSchedule(&job, sc, *timeout)
		}
		counts[r.Status]++
		var b, _ = json.Marshal(r)
		w.Write(b)
		w.WriteByte('\n')
	}
	w.Flush()
	f.Close()
	fmt.Printf("DONE schedules=%d ok=%d drift=%d\n", len(job.Schedules), counts["ok"], counts["drift"])
}
