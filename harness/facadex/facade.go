// Package facadex runs the matrix of spec/Facade.tla: every universal
// constructor of Module.go against the class-level constructors and the parser.
package facadex

import (
	"fmt"
	"sort"
	"time"

	mod "github.com/craterdog/go-collection-framework/v4"
	age "github.com/craterdog/go-collection-framework/v4/agent"
	cdc "github.com/craterdog/go-collection-framework/v4/cdcn"
	col "github.com/craterdog/go-collection-framework/v4/collection"
)

type Cell struct {
	Kind string `json:"kind"`
	Form string `json:"form"`
	N    int    `json:"n"`
	NPos string `json:"npos"`
	Src  string `json:"src"` // kind of the collection passed as the `sequence` argument
}

type Outcome struct {
	St string         `json:"st"`
	D  map[string]any `json:"d"`
	Msg string        `json:"msg"`
}

type Rec struct {
	Kind   string  `json:"kind"`
	Form   string  `json:"form"`
	N      int     `json:"n"`
	NPos   string  `json:"npos"`
	Src    string  `json:"src"`
	Elem   string  `json:"elem"`
	Module Outcome `json:"module"`
	Class  Outcome `json:"class"`
	Parse  Outcome `json:"parse"`
}

var none = map[string]any{"kind": "none", "items": []any{}}

func try(f func() map[string]any) (out Outcome) {
	var done = make(chan struct{})
	go func() {
		defer close(done)
		defer func() {
			if r := recover(); r != nil {
				out = Outcome{St: "panic", D: none, Msg: fmt.Sprint(r)}
				if len(out.Msg) > 150 {
					out.Msg = out.Msg[:150]
				}
			}
		}()
		out = Outcome{St: "ok", D: f()}
	}()
	select {
	case <-done:
		return out
	case <-time.After(3 * time.Second):
		return Outcome{St: "timeout", D: none, Msg: "the constructor did not return"}
	}
}

// T is one element type with its codec.
type T[V comparable] struct {
	Name string
	Enc  func(i int) V
	Dec  func(v V) int
}

// reversed is a caller-supplied collator (descending order of tokens).
type reversed[V comparable] struct{ t *T[V] }

func (c *reversed[V]) GetClass() age.CollatorClassLike[V] { return nil }
func (c *reversed[V]) GetDepth() int                      { return 0 }
func (c *reversed[V]) GetMaximum() int                    { return 16 }
func (c *reversed[V]) CompareValues(a, b V) bool          { return c.t.Dec(a) == c.t.Dec(b) }
func (c *reversed[V]) RankValues(a, b V) age.Rank {
	var x, y = c.t.Dec(a), c.t.Dec(b)
	switch {
	case x > y:
		return age.LesserRank
	case x < y:
		return age.GreaterRank
	}
	return age.EqualRank
}

func toks[V comparable](t *T[V], a []V) []any {
	var out = make([]any, len(a))
	for i, v := range a {
		out[i] = t.Dec(v)
	}
	return out
}

func descSeq[V comparable](t *T[V], kind string, s col.Sequential[V]) map[string]any {
	var d = map[string]any{"kind": kind, "items": toks(t, s.AsArray())}
	switch x := any(s).(type) {
	case col.StackLike[V]:
		d["cap"] = int(x.GetCapacity())
	case col.QueueLike[V]:
		d["cap"] = int(x.GetCapacity())
	case col.SetLike[V]:
		if _, ok := x.GetCollator().(*reversed[V]); ok {
			d["coll"] = "rev"
		} else {
			d["coll"] = "nat"
		}
	}
	return d
}

func descAssoc[V comparable](t *T[V], kind string, s col.Sequential[col.AssociationLike[V, V]], sorted bool) map[string]any {
	var items [][]int
	for _, a := range s.AsArray() {
		items = append(items, []int{t.Dec(a.GetKey()), t.Dec(a.GetValue())})
	}
	if sorted {
		sort.Slice(items, func(i, j int) bool { return items[i][0] < items[j][0] })
	}
	var out = make([]any, len(items))
	for i, p := range items {
		out[i] = p
	}
	return map[string]any{"kind": kind, "items": out}
}

func withNotation(pos string, notation col.NotationLike, args ...any) []any {
	switch pos {
	case "first":
		return append([]any{notation}, args...)
	case "last":
		return append(args, notation)
	}
	return args
}

// Run executes one cell for element type t.
func Run[V comparable](t *T[V], c Cell) Rec {
	var rec = Rec{Kind: c.Kind, Form: c.Form, N: c.N, NPos: c.NPos, Src: c.Src, Elem: t.Name, Parse: Outcome{St: "none", D: none}}
	var notation = cdc.Notation().Make()
	var vals = make([]V, c.N)
	for i := range vals {
		vals[i] = t.Enc(i + 1)
	}
	var anys = make([]any, c.N)
	for i, v := range vals {
		anys[i] = v
	}
	var assocs = make([]col.AssociationLike[V, V], c.N)
	var gomap = map[V]V{}
	for i := range assocs {
		assocs[i] = col.Association[V, V](notation).Make(t.Enc(i+1), t.Enc(c.N-i))
		gomap[t.Enc(i+1)] = t.Enc(c.N - i)
	}
	var args = func(a ...any) []any { return withNotation(c.NPos, notation, a...) }
	// the `sequence` argument is a collection of any kind (a set keeps its own
	// order, possibly that of a custom collator; a stack lists top first)
	var seqV = func() col.Sequential[V] {
		switch c.Src {
		case "Array":
			return col.Array[V](notation).MakeFromArray(vals)
		case "Set":
			return col.Set[V](notation).MakeFromArray(vals)
		case "SetRev":
			var s = col.Set[V](notation).MakeWithCollator(&reversed[V]{t})
			for _, v := range vals {
				s.AddValue(v)
			}
			return s
		case "Stack":
			return col.Stack[V](notation).MakeFromArray(vals)
		case "Queue":
			return col.Queue[V](notation).MakeFromArray(vals)
		}
		return col.List[V](notation).MakeFromArray(vals)
	}
	var seqA = func() col.Sequential[col.AssociationLike[V, V]] {
		switch c.Src {
		case "Array":
			return col.Array[col.AssociationLike[V, V]](notation).MakeFromArray(assocs)
		case "Catalog":
			return col.Catalog[V, V](notation).MakeFromArray(assocs)
		}
		return col.List[col.AssociationLike[V, V]](notation).MakeFromArray(assocs)
	}
	// the CDCN source of the same data, produced from `any` collections
	var sourceOf = func(kind string) string {
		switch kind {
		case "Catalog", "Map":
			var m = col.Catalog[any, any](notation).Make()
			for i := range assocs {
				m.SetValue(any(assocs[i].GetKey()), any(assocs[i].GetValue()))
			}
			if kind == "Map" {
				var mm = col.Map[any, any](notation).Make()
				for _, a := range m.AsArray() {
					mm.SetValue(a.GetKey(), a.GetValue())
				}
				return notation.FormatValue(mm)
			}
			return notation.FormatValue(m)
		case "Array":
			return notation.FormatValue(col.Array[any](notation).MakeFromArray(anys))
		case "Set":
			return notation.FormatValue(col.Set[any](notation).MakeFromArray(anys))
		case "Stack":
			return notation.FormatValue(col.Stack[any](notation).MakeFromArray(anys))
		case "Queue":
			return notation.FormatValue(col.Queue[any](notation).MakeFromArray(anys))
		}
		return notation.FormatValue(col.List[any](notation).MakeFromArray(anys))
	}
	var parseSeq = func(src string) Outcome {
		return try(func() map[string]any {
			var s = cdc.Notation().Make().ParseSource(src).(col.Sequential[any])
			var items []any
			for _, x := range s.AsArray() {
				if a, ok := x.(col.AssociationLike[any, any]); ok {
					items = append(items, []int{t.Dec(a.GetKey().(V)), t.Dec(a.GetValue().(V))})
				} else {
					items = append(items, t.Dec(x.(V)))
				}
			}
			if items == nil {
				items = []any{}
			}
			if c.Kind == "Map" {
				sort.Slice(items, func(i, j int) bool { return items[i].([]int)[0] < items[j].([]int)[0] })
			}
			return map[string]any{"kind": c.Kind, "items": items}
		})
	}
	var rev = &reversed[V]{t}
	switch c.Kind {
	case "Association":
		var k, v = t.Enc(c.N), t.Enc((c.N+1)%5) // token 0 is the zero value of the type
		rec.Module = try(func() map[string]any {
			var a = mod.Association[V, V](args(k, v)...)
			return map[string]any{"kind": "Association", "items": []any{t.Dec(a.GetKey()), t.Dec(a.GetValue())}}
		})
		rec.Class = try(func() map[string]any {
			var a = col.Association[V, V](notation).Make(k, v)
			return map[string]any{"kind": "Association", "items": []any{t.Dec(a.GetKey()), t.Dec(a.GetValue())}}
		})
	case "Array":
		var class = col.Array[V](notation)
		switch c.Form {
		case "size":
			rec.Module = try(func() map[string]any { return descSeq(t, "Array", mod.Array[V](args(uint(c.N))...)) })
			rec.Class = try(func() map[string]any { return descSeq(t, "Array", class.Make(uint(c.N))) })
		case "array":
			rec.Module = try(func() map[string]any { return descSeq(t, "Array", mod.Array[V](args(vals)...)) })
			rec.Class = try(func() map[string]any { return descSeq(t, "Array", class.MakeFromArray(vals)) })
		case "sequence":
			rec.Module = try(func() map[string]any { return descSeq(t, "Array", mod.Array[V](args(seqV())...)) })
			rec.Class = try(func() map[string]any { return descSeq(t, "Array", class.MakeFromSequence(seqV())) })
		case "source":
			var src = sourceOf("Array")
			rec.Module = try(func() map[string]any { return descSeq(t, "Array", mod.Array[V](args(src)...)) })
			rec.Class = try(func() map[string]any { return descSeq(t, "Array", class.MakeFromArray(vals)) })
			rec.Parse = parseSeq(src)
		}
	case "List":
		var class = col.List[V](notation)
		switch c.Form {
		case "none":
			rec.Module = try(func() map[string]any { return descSeq(t, "List", mod.List[V](args()...)) })
			rec.Class = try(func() map[string]any { return descSeq(t, "List", class.Make()) })
		case "array":
			rec.Module = try(func() map[string]any { return descSeq(t, "List", mod.List[V](args(vals)...)) })
			rec.Class = try(func() map[string]any { return descSeq(t, "List", class.MakeFromArray(vals)) })
		case "sequence":
			rec.Module = try(func() map[string]any { return descSeq(t, "List", mod.List[V](args(seqV())...)) })
			rec.Class = try(func() map[string]any { return descSeq(t, "List", class.MakeFromSequence(seqV())) })
		case "source":
			var src = sourceOf("List")
			rec.Module = try(func() map[string]any { return descSeq(t, "List", mod.List[V](args(src)...)) })
			rec.Class = try(func() map[string]any { return descSeq(t, "List", class.MakeFromArray(vals)) })
			rec.Parse = parseSeq(src)
		}
	case "Set":
		var class = col.Set[V](notation)
		var filled = func(s col.SetLike[V]) col.SetLike[V] {
			for _, v := range vals {
				s.AddValue(v)
			}
			return s
		}
		switch c.Form {
		case "none":
			rec.Module = try(func() map[string]any { return descSeq(t, "Set", mod.Set[V](args()...)) })
			rec.Class = try(func() map[string]any { return descSeq(t, "Set", class.Make()) })
		case "array":
			rec.Module = try(func() map[string]any { return descSeq(t, "Set", mod.Set[V](args(vals)...)) })
			rec.Class = try(func() map[string]any { return descSeq(t, "Set", class.MakeFromArray(vals)) })
		case "sequence":
			rec.Module = try(func() map[string]any { return descSeq(t, "Set", mod.Set[V](args(seqV())...)) })
			rec.Class = try(func() map[string]any { return descSeq(t, "Set", class.MakeFromSequence(seqV())) })
		case "source":
			var src = sourceOf("Set")
			rec.Module = try(func() map[string]any { return descSeq(t, "Set", mod.Set[V](args(src)...)) })
			rec.Class = try(func() map[string]any { return descSeq(t, "Set", class.MakeFromArray(vals)) })
			rec.Parse = parseSeq(src)
		case "collator":
			rec.Module = try(func() map[string]any { return descSeq(t, "Set", mod.Set[V](args(age.CollatorLike[V](rev))...)) })
			rec.Class = try(func() map[string]any { return descSeq(t, "Set", class.MakeWithCollator(rev)) })
		case "collator+array":
			rec.Module = try(func() map[string]any { return descSeq(t, "Set", mod.Set[V](args(age.CollatorLike[V](rev), vals)...)) })
			rec.Class = try(func() map[string]any { return descSeq(t, "Set", filled(class.MakeWithCollator(rev))) })
		case "collator+sequence":
			rec.Module = try(func() map[string]any { return descSeq(t, "Set", mod.Set[V](args(seqV(), age.CollatorLike[V](rev))...)) })
			rec.Class = try(func() map[string]any { return descSeq(t, "Set", filled(class.MakeWithCollator(rev))) })
		case "collator+source":
			var src = sourceOf("Set")
			rec.Module = try(func() map[string]any { return descSeq(t, "Set", mod.Set[V](args(age.CollatorLike[V](rev), src)...)) })
			rec.Class = try(func() map[string]any { return descSeq(t, "Set", filled(class.MakeWithCollator(rev))) })
		}
	case "Stack":
		var class = col.Stack[V](notation)
		switch c.Form {
		case "none":
			rec.Module = try(func() map[string]any { return descSeq(t, "Stack", mod.Stack[V](args()...)) })
			rec.Class = try(func() map[string]any { return descSeq(t, "Stack", class.Make()) })
		case "capacity":
			rec.Module = try(func() map[string]any { return descSeq(t, "Stack", mod.Stack[V](args(uint(c.N))...)) })
			rec.Class = try(func() map[string]any { return descSeq(t, "Stack", class.MakeWithCapacity(uint(c.N))) })
		case "array":
			rec.Module = try(func() map[string]any { return descSeq(t, "Stack", mod.Stack[V](args(vals)...)) })
			rec.Class = try(func() map[string]any { return descSeq(t, "Stack", class.MakeFromArray(vals)) })
		case "sequence":
			rec.Module = try(func() map[string]any { return descSeq(t, "Stack", mod.Stack[V](args(seqV())...)) })
			rec.Class = try(func() map[string]any { return descSeq(t, "Stack", class.MakeFromSequence(seqV())) })
		case "source":
			var src = sourceOf("Stack")
			rec.Module = try(func() map[string]any { return descSeq(t, "Stack", mod.Stack[V](args(src)...)) })
			rec.Class = try(func() map[string]any { return descSeq(t, "Stack", class.MakeFromArray(vals)) })
			rec.Parse = parseSeq(src)
		}
	case "Queue":
		var class = col.Queue[V](notation)
		switch c.Form {
		case "none":
			rec.Module = try(func() map[string]any { return descSeq(t, "Queue", mod.Queue[V](args()...)) })
			rec.Class = try(func() map[string]any { return descSeq(t, "Queue", class.Make()) })
		case "capacity":
			rec.Module = try(func() map[string]any { return descSeq(t, "Queue", mod.Queue[V](args(uint(c.N))...)) })
			rec.Class = try(func() map[string]any { return descSeq(t, "Queue", class.MakeWithCapacity(uint(c.N))) })
		case "array":
			rec.Module = try(func() map[string]any { return descSeq(t, "Queue", mod.Queue[V](args(vals)...)) })
			rec.Class = try(func() map[string]any { return descSeq(t, "Queue", class.MakeFromArray(vals)) })
		case "sequence":
			rec.Module = try(func() map[string]any { return descSeq(t, "Queue", mod.Queue[V](args(seqV())...)) })
			rec.Class = try(func() map[string]any { return descSeq(t, "Queue", class.MakeFromSequence(seqV())) })
		case "source":
			var src = sourceOf("Queue")
			rec.Module = try(func() map[string]any { return descSeq(t, "Queue", mod.Queue[V](args(src)...)) })
			rec.Class = try(func() map[string]any { return descSeq(t, "Queue", class.MakeFromArray(vals)) })
			rec.Parse = parseSeq(src)
		}
	case "Catalog", "Map":
		var sorted = c.Kind == "Map"
		var mk = func(a ...any) col.Sequential[col.AssociationLike[V, V]] {
			if c.Kind == "Catalog" {
				return mod.Catalog[V, V](args(a...)...)
			}
			return mod.Map[V, V](args(a...)...)
		}
		var cl = func(form string) col.Sequential[col.AssociationLike[V, V]] {
			if c.Kind == "Catalog" {
				var class = col.Catalog[V, V](notation)
				switch form {
				case "none":
					return class.Make()
				case "array", "source":
					return class.MakeFromArray(assocs)
				case "gomap":
					return class.MakeFromMap(gomap)
				}
				return class.MakeFromSequence(seqA())
			}
			var class = col.Map[V, V](notation)
			switch form {
			case "none":
				return class.Make()
			case "array", "source":
				return class.MakeFromArray(assocs)
			case "gomap":
				return class.MakeFromMap(gomap)
			}
			return class.MakeFromSequence(seqA())
		}
		// a catalog built from a Go map has an unspecified order: compare sorted
		var srt = sorted || c.Form == "gomap"
		rec.Class = try(func() map[string]any { return descAssoc(t, c.Kind, cl(c.Form), srt) })
		switch c.Form {
		case "none":
			rec.Module = try(func() map[string]any { return descAssoc(t, c.Kind, mk(), srt) })
		case "array":
			rec.Module = try(func() map[string]any { return descAssoc(t, c.Kind, mk(assocs), srt) })
		case "gomap":
			rec.Module = try(func() map[string]any { return descAssoc(t, c.Kind, mk(gomap), srt) })
		case "sequence":
			rec.Module = try(func() map[string]any { return descAssoc(t, c.Kind, mk(seqA()), srt) })
		case "source":
			var src = sourceOf(c.Kind)
			rec.Module = try(func() map[string]any { return descAssoc(t, c.Kind, mk(src), srt) })
			rec.Parse = parseSeq(src)
		}
	}
	return rec
}
