// Package agentx binds the agent classes (sorter, collator) to their
// specifications: it runs the real code on inputs enumerated by TLC and
// records observation tables for TLC to judge.
package agentx

import (
	"math/rand"
	"time"

	age "github.com/craterdog/go-collection-framework/v4/agent"
	cdc "github.com/craterdog/go-collection-framework/v4/cdcn"
	col "github.com/craterdog/go-collection-framework/v4/collection"
)

// Tagged is an array element: V is what rankers look at, T is a unique tag.
type Tagged struct {
	V int
	T int
}

type SortRec struct {
	Op     string   `json:"op"`
	Via    string   `json:"via"`
	Ranker string   `json:"ranker"`
	Input  [][2]int `json:"input"`
	Output [][2]int `json:"output"`
	Calls  int      `json:"calls"`
	Cmps   [][2]int `json:"cmps"` // tags of the values passed to each ranker call (short inputs, via sorter)
}

func rankTok(name string, a, b int) age.Rank {
	var cmp = func(x, y int) age.Rank {
		switch {
		case x < y:
			return age.LesserRank
		case x > y:
			return age.GreaterRank
		}
		return age.EqualRank
	}
	switch name {
	case "nat":
		return cmp(a, b)
	case "rev":
		return cmp(b, a)
	case "coarse":
		return cmp(a/2, b/2)
	case "const":
		return age.EqualRank
	case "lesser":
		return age.LesserRank
	case "greater":
		return age.GreaterRank
	case "odd":
		if (a+b)%2 == 1 {
			return age.LesserRank
		}
		return age.GreaterRank
	}
	panic("unknown ranker " + name)
}

var Rankers = []string{"nat", "rev", "coarse", "const", "lesser", "greater", "odd"}

func tagged(vals []int) []Tagged {
	var a = make([]Tagged, len(vals))
	for i, v := range vals {
		a[i] = Tagged{v, i + 1}
	}
	return a
}

func pairs(a []Tagged) [][2]int {
	var p = make([][2]int, len(a))
	for i, x := range a {
		p[i] = [2]int{x.V, x.T}
	}
	return p
}

// guarded runs f under a watchdog.
func guarded(f func(), d time.Duration) bool {
	var done = make(chan struct{})
	go func() {
		defer func() { recover(); close(done) }()
		f()
	}()
	select {
	case <-done:
		return true
	case <-time.After(d):
		return false
	}
}

// SortAll runs every operation on one input through every API.
func SortAll(vals []int, emit0 func(SortRec), watchdog time.Duration) (alive bool) {
	alive = true
	var emit = func(r SortRec) {
		if r.Cmps == nil {
			r.Cmps = [][2]int{}
		}
		emit0(r)
	}
	var notation = cdc.Notation().Make()
	var in = pairs(tagged(vals))
	var run = func(op, via, ranker string, f func(calls *int) []Tagged) {
		var calls int
		var out []Tagged
		if !guarded(func() { out = f(&calls) }, watchdog) {
			emit(SortRec{Op: "timeout", Via: via, Ranker: ranker, Input: in, Output: [][2]int{}, Calls: calls})
			alive = false
			return
		}
		emit(SortRec{Op: op, Via: via, Ranker: ranker, Input: in, Output: pairs(out), Calls: calls})
	}
	for _, name := range Rankers {
		var name = name
		var mk = func(calls *int) age.RankingFunction[Tagged] {
			return func(a, b Tagged) age.Rank { *calls++; return rankTok(name, a.V, b.V) }
		}
		{
			var calls int
			var cmps = [][2]int{}
			var arr = tagged(vals)
			if !guarded(func() {
				age.Sorter[Tagged]().MakeWithRanker(func(x, y Tagged) age.Rank {
					calls++
					if len(vals) <= 16 {
						cmps = append(cmps, [2]int{x.T, y.T})
					}
					return rankTok(name, x.V, y.V)
				}).SortValues(arr)
			}, watchdog) {
				emit(SortRec{Op: "timeout", Via: "sorter", Ranker: name, Input: in, Output: [][2]int{}, Calls: calls})
				alive = false
				return
			}
			var rec = SortRec{Op: "sort", Via: "sorter", Ranker: name, Input: in, Output: pairs(arr), Calls: calls}
			if len(vals) <= 16 {
				rec.Cmps = cmps
			}
			emit(rec)
		}
		if !alive {
			return
		}
		run("sort", "Array", name, func(c *int) []Tagged {
			var x = col.Array[Tagged](notation).MakeFromArray(tagged(vals))
			x.SortValuesWithRanker(mk(c))
			return x.AsArray()
		})
		run("sort", "List", name, func(c *int) []Tagged {
			var x = col.List[Tagged](notation).MakeFromArray(tagged(vals))
			x.SortValuesWithRanker(mk(c))
			return x.AsArray()
		})
		run("sort", "Catalog", name, func(c *int) []Tagged {
			var x = col.Catalog[int, int](notation).Make()
			for i, v := range vals {
				x.SetValue(i+1, v)
			}
			x.SortValuesWithRanker(func(a, b col.AssociationLike[int, int]) age.Rank {
				*c++
				return rankTok(name, a.GetValue(), b.GetValue())
			})
			var out []Tagged
			for _, a := range x.AsArray() {
				out = append(out, Tagged{a.GetValue(), a.GetKey()})
			}
			return out
		})
		if !alive {
			return
		}
	}
	// the default ranker (natural order of the element type)
	run("sort", "sorter-default", "natlex", func(c *int) []Tagged {
		var a = tagged(vals)
		age.Sorter[Tagged]().Make().SortValues(a)
		return a
	})
	run("sort", "Array-default", "natlex", func(c *int) []Tagged {
		var x = col.Array[Tagged](notation).MakeFromArray(tagged(vals))
		x.SortValues()
		return x.AsArray()
	})
	run("sort", "List-default", "natlex", func(c *int) []Tagged {
		var x = col.List[Tagged](notation).MakeFromArray(tagged(vals))
		x.SortValues()
		return x.AsArray()
	})
	// a catalog in its natural order: associations rank by key, then by value;
	// the keys are distinct pointers whose pointees may be equal, so that the
	// value decides among them
	run("sort", "Catalog-default", "natlex", func(c *int) []Tagged {
		var x = col.Catalog[*int, int](notation).Make()
		for i, v := range vals {
			var k = new(int)
			*k = v
			x.SetValue(k, i+1)
		}
		x.SortValues()
		var out []Tagged
		for _, a := range x.AsArray() {
			out = append(out, Tagged{*a.GetKey(), a.GetValue()})
		}
		return out
	})
	// reverse, once and twice; shuffle
	for _, via := range []string{"sorter", "Array", "List", "Catalog"} {
		var via = via
		var apply = func(op string, times int) func(c *int) []Tagged {
			return func(c *int) []Tagged {
				switch via {
				case "sorter":
					var a = tagged(vals)
					var s = age.Sorter[Tagged]().Make()
					for i := 0; i < times; i++ {
						if op == "reverse" {
							s.ReverseValues(a)
						} else {
							s.ShuffleValues(a)
						}
					}
					return a
				case "Array", "List":
					var x col.Sortable[Tagged]
					var seq col.Sequential[Tagged]
					if via == "Array" {
						var y = col.Array[Tagged](notation).MakeFromArray(tagged(vals))
						x, seq = y, y
					} else {
						var y = col.List[Tagged](notation).MakeFromArray(tagged(vals))
						x, seq = y, y
					}
					for i := 0; i < times; i++ {
						if op == "reverse" {
							x.ReverseValues()
						} else {
							x.ShuffleValues()
						}
					}
					return seq.AsArray()
				default:
					var x = col.Catalog[int, int](notation).Make()
					for i, v := range vals {
						x.SetValue(i+1, v)
					}
					for i := 0; i < times; i++ {
						if op == "reverse" {
							x.ReverseValues()
						} else {
							x.ShuffleValues()
						}
					}
					var out []Tagged
					for _, a := range x.AsArray() {
						out = append(out, Tagged{a.GetValue(), a.GetKey()})
					}
					return out
				}
			}
		}
		run("reverse", via, "", apply("reverse", 1))
		run("reverse2", via, "", apply("reverse", 2))
		run("shuffle", via, "", apply("shuffle", 1))
	}
	return alive
}

// RandomArrays produces seeded arrays with the shapes named by the property:
// heavy duplication, presorted, reversed, saw-tooth.
func RandomArrays(seed int64, n int, maxLen int) [][]int {
	var r = rand.New(rand.NewSource(seed))
	var out [][]int
	for i := 0; i < n; i++ {
		var length = 8 + r.Intn(120)
		switch r.Intn(6) {
		case 0:
			length = 1 + r.Intn(maxLen)
		case 1: // around powers of two
			length = (1 << uint(3+r.Intn(8))) + r.Intn(5) - 2
			if length > maxLen {
				length = maxLen
			}
		}
		var dom = []int{2, 4, 16, 1000}[r.Intn(4)]
		var a = make([]int, length)
		switch r.Intn(5) {
		case 0:
			for j := range a {
				a[j] = j * dom / (length + 1)
			}
		case 1:
			for j := range a {
				a[j] = (length - j) * dom / (length + 1)
			}
		case 2:
			for j := range a {
				a[j] = j % (1 + r.Intn(7))
			}
		default:
			for j := range a {
				a[j] = r.Intn(dom)
			}
		}
		out = append(out, a)
	}
	return out
}

// Reused runs one sorter instance per ranker over all inputs in turn (a
// sorter must not carry state from one call to the next): each result is
// recorded ("sort" via "sorter-reused"), and after the following call the
// previous array is read again ("stable": it must still be what was returned).
type Reused struct {
	sorters map[string]age.SorterLike[Tagged]
	prev    map[string][]Tagged
	prevOut map[string][][2]int
}

func NewReused() *Reused {
	var r = &Reused{sorters: map[string]age.SorterLike[Tagged]{}, prev: map[string][]Tagged{}, prevOut: map[string][][2]int{}}
	for _, name := range Rankers {
		var name = name
		r.sorters[name] = age.Sorter[Tagged]().MakeWithRanker(func(a, b Tagged) age.Rank { return rankTok(name, a.V, b.V) })
	}
	return r
}

func (r *Reused) Run(vals []int, emit func(SortRec), watchdog time.Duration) bool {
	for _, name := range Rankers {
		var arr = tagged(vals)
		var in = pairs(arr)
		if !guarded(func() { r.sorters[name].SortValues(arr) }, watchdog) {
			emit(SortRec{Op: "timeout", Via: "sorter-reused", Ranker: name, Input: in, Output: [][2]int{}, Cmps: [][2]int{}})
			return false
		}
		emit(SortRec{Op: "sort", Via: "sorter-reused", Ranker: name, Input: in, Output: pairs(arr), Cmps: [][2]int{}})
		if p, ok := r.prev[name]; ok {
			emit(SortRec{Op: "stable", Via: "sorter-reused", Ranker: name, Input: r.prevOut[name], Output: pairs(p), Cmps: [][2]int{}})
		}
		r.prev[name] = arr
		r.prevOut[name] = pairs(arr)
	}
	return true
}
