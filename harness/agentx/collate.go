package agentx

import (
	"encoding/json"
	"fmt"
	"math"
	"math/rand"
	"sort"
	"strings"
	"time"

	age "github.com/craterdog/go-collection-framework/v4/agent"
	cdc "github.com/craterdog/go-collection-framework/v4/cdcn"
	col "github.com/craterdog/go-collection-framework/v4/collection"
)

// Desc is an abstract value descriptor of spec/CollatorLaws.tla.
type Desc struct {
	K  string    `json:"k"`
	C  int       `json:"c"`
	Es []Desc    `json:"es,omitempty"`
	Ps [][2]Desc `json:"ps,omitempty"`
}

func (d Desc) MarshalJSON() ([]byte, error) {
	switch d.K {
	case "leaf":
		return json.Marshal(map[string]any{"k": "leaf", "c": d.C})
	case "nil":
		return json.Marshal(map[string]any{"k": "nil"})
	case "seq":
		var es = d.Es
		if es == nil {
			es = []Desc{}
		}
		return json.Marshal(map[string]any{"k": "seq", "es": es})
	default:
		var ps = d.Ps
		if ps == nil {
			ps = [][2]Desc{}
		}
		return json.Marshal(map[string]any{"k": "map", "ps": ps})
	}
}

type Val struct {
	D   Desc `json:"d"`
	Pin bool `json:"pin"`
}

type Table struct {
	Name string  `json:"name"`
	Mode string  `json:"mode"`
	Vals []Val   `json:"vals"`
	Rank [][]int `json:"rank"`
	Eq   [][]int `json:"eq"`
	Show []string `json:"show"` // concrete values, for reports
}

// cell evaluates RankValues / CompareValues with a recover.
func cell[T any](c age.CollatorLike[T], a, b T) (rank, eq int) {
	func() {
		defer func() {
			if recover() != nil {
				rank = 0
			}
		}()
		rank = int(c.RankValues(a, b)) + 1 // Lesser=0 -> 1, Equal -> 2, Greater -> 3
	}()
	func() {
		defer func() {
			if recover() != nil {
				eq = 2
			}
		}()
		if c.CompareValues(a, b) {
			eq = 1
		}
	}()
	return
}

// compute fills the rank and eq matrices: rows are the A copies, columns the
// independently built B copies.
//
//	fresh  : a new collator for every pair
//	shared : one collator for all pairs, visited in a seeded random order
func compute[T any](t *Table, mk func() age.CollatorLike[T], A, B []T, mode string, seed int64) {
	var n = len(A)
	t.Mode = mode
	t.Rank = make([][]int, n)
	t.Eq = make([][]int, n)
	for i := range t.Rank {
		t.Rank[i] = make([]int, n)
		t.Eq[i] = make([]int, n)
	}
	var order = make([][2]int, 0, n*n)
	for i := 0; i < n; i++ {
		for j := 0; j < n; j++ {
			order = append(order, [2]int{i, j})
		}
	}
	var shared age.CollatorLike[T]
	if mode != "fresh" {
		shared = mk()
		rand.New(rand.NewSource(seed)).Shuffle(len(order), func(x, y int) { order[x], order[y] = order[y], order[x] })
	}
	for _, ij := range order {
		var c = shared
		if mode == "fresh" {
			c = mk()
		}
		t.Rank[ij[0]][ij[1]], t.Eq[ij[0]][ij[1]] = cell(c, A[ij[0]], B[ij[1]])
	}
}

// ---- leaf corner tables ----------------------------------------------------

type leafSpec[T any] struct {
	name string
	vals []T
	cls  []int  // class index: equal class = equal value; ascending
	pin  []bool // false: the documented order does not place this value
}

func leafTables[T any](s leafSpec[T], emit func(Table)) {
	var vals = make([]Val, len(s.vals))
	var show = make([]string, len(s.vals))
	var anys = make([]any, len(s.vals))
	for i := range s.vals {
		vals[i] = Val{D: Desc{K: "leaf", C: s.cls[i]}, Pin: s.pin == nil || s.pin[i]}
		show[i] = fmt.Sprintf("%v", any(s.vals[i]))
		if str, ok := any(s.vals[i]).(string); ok {
			show[i] = fmt.Sprintf("%q", str)
		}
		anys[i] = s.vals[i]
	}
	for _, mode := range []string{"fresh", "shared"} {
		var t = Table{Name: "leaf/" + s.name + "/typed", Vals: vals, Show: show}
		compute(&t, func() age.CollatorLike[T] { return age.Collator[T]().Make() }, s.vals, s.vals, mode, 7)
		emit(t)
		var u = Table{Name: "leaf/" + s.name + "/any", Vals: vals, Show: show}
		compute(&u, func() age.CollatorLike[any] { return age.Collator[any]().Make() }, anys, anys, mode, 7)
		emit(u)
	}
}

func seqInts(n int) []int {
	var s = make([]int, n)
	for i := range s {
		s[i] = i
	}
	return s
}

// LeafTables emits the corner tables of every primitive type.
func LeafTables(emit func(Table)) {
	leafTables(leafSpec[bool]{"bool", []bool{false, true}, seqInts(2), nil}, emit)
	leafTables(leafSpec[int8]{"int8", []int8{math.MinInt8, -1, 0, 1, math.MaxInt8}, seqInts(5), nil}, emit)
	leafTables(leafSpec[int16]{"int16", []int16{math.MinInt16, -1, 0, 1, math.MaxInt16}, seqInts(5), nil}, emit)
	leafTables(leafSpec[int32]{"int32", []int32{math.MinInt32, -1, 0, 1, 'a', 0xe9, 0x10ffff, math.MaxInt32}, seqInts(8), nil}, emit)
	leafTables(leafSpec[int64]{"int64", []int64{math.MinInt64, math.MinInt64 + 1, -1, 0, 1, math.MaxInt64 - 1, math.MaxInt64}, seqInts(7), nil}, emit)
	leafTables(leafSpec[int]{"int", []int{math.MinInt, -1, 0, 1, math.MaxInt}, seqInts(5), nil}, emit)
	leafTables(leafSpec[uint8]{"uint8", []uint8{0, 1, 127, 128, 255}, seqInts(5), nil}, emit)
	leafTables(leafSpec[uint16]{"uint16", []uint16{0, 1, math.MaxUint16}, seqInts(3), nil}, emit)
	leafTables(leafSpec[uint32]{"uint32", []uint32{0, 1, math.MaxInt32, math.MaxInt32 + 1, math.MaxUint32}, seqInts(5), nil}, emit)
	leafTables(leafSpec[uint64]{"uint64", []uint64{0, 1, math.MaxInt64, math.MaxInt64 + 1, math.MaxUint64}, seqInts(5), nil}, emit)
	leafTables(leafSpec[uint]{"uint", []uint{0, 1, math.MaxUint}, seqInts(3), nil}, emit)
	var negZero = math.Copysign(0, -1)
	leafTables(leafSpec[float64]{"float64",
		[]float64{math.Inf(-1), -math.MaxFloat64, -1.5, -math.SmallestNonzeroFloat64, negZero, 0, math.SmallestNonzeroFloat64, 2.2250738585072014e-308, 1.5, math.MaxFloat64, math.Inf(1), math.NaN()},
		[]int{0, 1, 2, 3, 4, 4, 5, 6, 7, 8, 9, 99}, []bool{true, true, true, true, true, true, true, true, true, true, true, false}}, emit)
	leafTables(leafSpec[float32]{"float32",
		[]float32{float32(math.Inf(-1)), -math.MaxFloat32, -1.5, float32(negZero), 0, math.SmallestNonzeroFloat32, 1.5, math.MaxFloat32, float32(math.Inf(1)), float32(math.NaN())},
		[]int{0, 1, 2, 3, 3, 4, 5, 6, 7, 99}, []bool{true, true, true, true, true, true, true, true, true, false}}, emit)
	leafTables(leafSpec[string]{"string", []string{"", "\x00", "a", "a\x00", "ab", "b", "\xc3\xa9", "\xff"}, seqInts(8), nil}, emit)
	// complex numbers have no documented order: only the preorder laws and the
	// agreement with CompareValues apply (no value is pinned)
	var cs = []complex128{0, complex(0, negZero), 1, complex(1, negZero), complex(-1, 0), complex(-1, negZero), complex(0, 1), complex(0, -1), complex(1, 1),
		complex(math.Sqrt2/2, math.Sqrt2/2), complex(3, 4), complex(5, 0), complex(math.Inf(1), 0), complex(math.NaN(), 0)}
	var unpinned = make([]bool, len(cs))
	leafTables(leafSpec[complex128]{"complex128", cs, seqInts(len(cs)), unpinned}, emit)
	var c64 = []complex64{0, 1, complex(-1, 0), complex(0, 1), complex(1, 1), complex(3, 4), complex(5, 0)}
	leafTables(leafSpec[complex64]{"complex64", c64, seqInts(len(c64)), make([]bool, len(c64))}, emit)
}

// ---- structural tables ------------------------------------------------------

var notation = cdc.Notation().Make()

// leaf concretisation for the structural universe: token c of family fam
func leafInt(c int) int         { return c - 1 }            // -1, 0, 1: spans the sign
func leafString(c int) string   { return []string{"", "a", "ab", "b"}[c] }
func leafFloat(c int) float64   { return []float64{-1.5, 0, 2.5, 1e300}[c] }

// buildSeq concretises a flat sequence descriptor as container `kind` over E.
func buildSeq[E any](d Desc, kind string, leaf func(int) E) any {
	var arr = make([]E, len(d.Es))
	for i, e := range d.Es {
		arr[i] = leaf(e.C)
	}
	switch kind {
	case "slice":
		return arr
	case "Array":
		return col.Array[E](notation).MakeFromArray(arr)
	case "List":
		return col.List[E](notation).MakeFromArray(arr)
	case "Stack":
		return col.Stack[E](notation).MakeFromArray(arr)
	case "Queue":
		return col.Queue[E](notation).MakeFromArray(arr)
	case "Set":
		return col.Set[E](notation).MakeFromArray(arr)
	}
	panic("kind " + kind)
}

func strictlyAscending(d Desc) bool {
	for i := 1; i < len(d.Es); i++ {
		if d.Es[i-1].C >= d.Es[i].C {
			return false
		}
	}
	return true
}

// assocSeq: a catalog / an association is ranked through its getters: key, then value
func assocSeq(ps [][2]Desc) Desc {
	var es []Desc
	for _, p := range ps {
		es = append(es, Desc{K: "seq", Es: []Desc{p[0], p[1]}})
	}
	return Desc{K: "seq", Es: es}
}

// buildMap concretises a flat map descriptor; rev fills it in the opposite order.
func buildMap[K comparable, V any](d Desc, kind string, key func(int) K, val func(Desc) V, rev bool) any {
	var ps = append([][2]Desc{}, d.Ps...)
	if rev {
		for i, j := 0, len(ps)-1; i < j; i, j = i+1, j-1 {
			ps[i], ps[j] = ps[j], ps[i]
		}
	}
	switch kind {
	case "gomap":
		var m = map[K]V{}
		for _, p := range ps {
			m[key(p[0].C)] = val(p[1])
		}
		return m
	case "Map":
		var m = col.Map[K, V](notation).Make()
		for _, p := range ps {
			m.SetValue(key(p[0].C), val(p[1]))
		}
		return m
	case "Catalog": // ordered: always filled in descriptor order
		var m = col.Catalog[K, V](notation).Make()
		for _, p := range d.Ps {
			m.SetValue(key(p[0].C), val(p[1]))
		}
		return m
	}
	panic("kind " + kind)
}

func anyTable(name string, vals []Val, A, B []any, emit func(Table), modes ...string) {
	var show = make([]string, len(A))
	for i, a := range A {
		show[i] = strings.TrimSpace(fmt.Sprintf("%v", a))
		if len(show[i]) > 60 {
			show[i] = show[i][:60]
		}
	}
	if len(modes) == 0 {
		modes = []string{"fresh", "shared"}
	}
	for _, mode := range modes {
		var t = Table{Name: name, Vals: vals, Show: show}
		compute(&t, func() age.CollatorLike[any] { return age.Collator[any]().Make() }, A, B, mode, 11)
		emit(t)
	}
}

// mutatedTable: one collator ranks every pair; then every object is changed *in
// place* into another value of the universe (the next one among the values
// sorted by size, so that most objects keep their size) and the same collator
// ranks every pair again.  Nothing a collator remembers about an object it has
// seen (sorted keys, sizes, earlier verdicts) may show in the second table.
func mutatedTable(name string, ds []Desc, valOf func(Desc) Val, build func(Desc) any, rebuild func(obj any, d Desc)) []Table {
	var n = len(ds)
	var order = append([]Desc{}, ds...)
	sort.SliceStable(order, func(i, j int) bool { return descSize(order[i]) < descSize(order[j]) })
	var A, B = make([]any, n), make([]any, n)
	var vals = make([]Val, n)
	for i, d := range order {
		A[i], B[i] = build(d), build(d)
		vals[i] = valOf(d)
	}
	var c = age.Collator[any]().Make()
	var mk = func() age.CollatorLike[any] { return c }
	var out []Table
	var t1 = Table{Name: name + "#before", Vals: vals}
	compute(&t1, mk, A, B, "shared-before-mutation", 13)
	out = append(out, t1)
	var vals2 = make([]Val, n)
	for i := range order {
		var d = order[(i+1)%n]
		rebuild(A[i], d)
		rebuild(B[i], d)
		vals2[i] = valOf(d)
	}
	var t2 = Table{Name: name + "#after", Vals: vals2}
	compute(&t2, mk, A, B, "shared-after-mutation-in-place", 17)
	out = append(out, t2)
	return out
}

func descSize(d Desc) int {
	if d.K == "map" {
		return len(d.Ps)
	}
	return len(d.Es)
}

// Universe is the structural universe exported by TLC, by group.
type Universe map[string][]Desc

func pinned(ds []Desc) []Val {
	var v = make([]Val, len(ds))
	for i, d := range ds {
		v[i] = Val{D: d, Pin: true}
	}
	return v
}

func sortedCopy(ds []Desc) []Desc {
	var out = append([]Desc{}, ds...)
	sort.SliceStable(out, func(i, j int) bool { a, _ := json.Marshal(out[i]); b, _ := json.Marshal(out[j]); return string(a) < string(b) })
	return out
}

// StructTables emits one table per (universe group, container kind, leaf type).
func StructTables(u Universe, emit func(Table)) {
	var flat = sortedCopy(u["flatseqs"])
	for _, kind := range []string{"slice", "Array", "List", "Stack", "Queue", "Set"} {
		var ds = flat
		if kind == "Set" {
			ds = nil
			for _, d := range flat {
				if strictlyAscending(d) {
					ds = append(ds, d)
				}
			}
		}
		var mk = func(leafName string, b func(d Desc) any) {
			var A, B = make([]any, len(ds)), make([]any, len(ds))
			for i, d := range ds {
				A[i], B[i] = b(d), b(d)
			}
			anyTable("seq/"+kind+"/"+leafName, pinned(ds), A, B, emit)
		}
		mk("int", func(d Desc) any { return buildSeq(d, kind, leafInt) })
		mk("string", func(d Desc) any { return buildSeq(d, kind, leafString) })
		mk("float64", func(d Desc) any { return buildSeq(d, kind, leafFloat) })
	}
	var maps = sortedCopy(u["flatmaps"])
	for _, kind := range []string{"gomap", "Map", "Catalog"} {
		var vals = pinned(maps)
		if kind == "Catalog" {
			vals = make([]Val, len(maps))
			for i, d := range maps {
				vals[i] = Val{D: assocSeq(d.Ps), Pin: true}
			}
		}
		var A, B = make([]any, len(maps)), make([]any, len(maps))
		for i, d := range maps {
			A[i] = buildMap(d, kind, leafString, func(v Desc) int { return leafInt(v.C) }, false)
			B[i] = buildMap(d, kind, leafString, func(v Desc) int { return leafInt(v.C) }, true)
		}
		anyTable("map/"+kind+"/string-int", vals, A, B, emit)
		for i, d := range maps {
			A[i] = buildMap(d, kind, leafInt, func(v Desc) string { return leafString(v.C) }, false)
			B[i] = buildMap(d, kind, leafInt, func(v Desc) string { return leafString(v.C) }, true)
		}
		anyTable("map/"+kind+"/int-string", vals, A, B, emit)
	}
	// maps with many keys (their keys are sorted by the sorter: sizes around its
	// run boundaries), the two copies filled in opposite orders
	{
		var bigKey = func(c int) string { return fmt.Sprintf("k%02d", c) }
		var intOf = func(v Desc) int { return leafInt(v.C) }
		var ds []Desc
		for _, n := range []int{16, 17, 20, 21, 22, 23, 24, 25, 32, 33, 37, 41, 48} {
			for variant := 0; variant < 2; variant++ {
				var d = Desc{K: "map"}
				for i := 0; i < n; i++ {
					var v = 1
					if variant == 1 && i == n-1 {
						v = 2
					}
					d.Ps = append(d.Ps, [2]Desc{{K: "leaf", C: i}, {K: "leaf", C: v}})
				}
				ds = append(ds, d)
			}
		}
		for _, kind := range []string{"gomap", "Map"} {
			var A, B = make([]any, len(ds)), make([]any, len(ds))
			for i, d := range ds {
				A[i] = buildMap(d, kind, bigKey, intOf, false)
				B[i] = buildMap(d, kind, bigKey, intOf, true)
			}
			anyTable("bigmap/"+kind+"/string-int", pinned(ds), A, B, emit)
		}
	}
	// objects changed in place between two rounds with one collator
	{
		var intOf = func(v Desc) int { return leafInt(v.C) }
		for _, t := range mutatedTable("mut/gomap/string-int", maps, func(d Desc) Val { return Val{D: d, Pin: true} },
			func(d Desc) any { return buildMap(d, "gomap", leafString, intOf, false) },
			func(obj any, d Desc) {
				var m = obj.(map[string]int)
				for k := range m {
					delete(m, k)
				}
				for _, p := range d.Ps {
					m[leafString(p[0].C)] = intOf(p[1])
				}
			}) {
			emit(t)
		}
		for _, t := range mutatedTable("mut/Map/string-int", maps, func(d Desc) Val { return Val{D: d, Pin: true} },
			func(d Desc) any { return buildMap(d, "Map", leafString, intOf, false) },
			func(obj any, d Desc) {
				var m = obj.(col.MapLike[string, int])
				m.RemoveAll()
				for _, p := range d.Ps {
					m.SetValue(leafString(p[0].C), intOf(p[1]))
				}
			}) {
			emit(t)
		}
		for _, t := range mutatedTable("mut/Catalog/string-int", maps, func(d Desc) Val { return Val{D: assocSeq(d.Ps), Pin: true} },
			func(d Desc) any { return buildMap(d, "Catalog", leafString, intOf, false) },
			func(obj any, d Desc) {
				var m = obj.(col.CatalogLike[string, int])
				m.RemoveAll()
				for _, p := range d.Ps {
					m.SetValue(leafString(p[0].C), intOf(p[1]))
				}
			}) {
			emit(t)
		}
		for _, t := range mutatedTable("mut/List/int", flat, func(d Desc) Val { return Val{D: d, Pin: true} },
			func(d Desc) any { return buildSeq(d, "List", leafInt) },
			func(obj any, d Desc) {
				var l = obj.(col.ListLike[int])
				l.RemoveAll()
				for _, e := range d.Es {
					l.AppendValue(leafInt(e.C))
				}
			}) {
			emit(t)
		}
		for _, t := range mutatedTable("mut/slice/int", flat, func(d Desc) Val { return Val{D: d, Pin: true} },
			func(d Desc) any { var a = buildSeq(d, "slice", leafInt).([]int); return &a },
			func(obj any, d Desc) {
				var a = obj.(*[]int)
				*a = (*a)[:0]
				for _, e := range d.Es {
					*a = append(*a, leafInt(e.C))
				}
			}) {
			emit(t)
		}
	}
	// associations: key then value
	{
		var ds []Desc
		var A, B []any
		for k := 0; k < 3; k++ {
			for v := 0; v < 3; v++ {
				ds = append(ds, Desc{K: "seq", Es: []Desc{{K: "leaf", C: k}, {K: "leaf", C: v}}})
				A = append(A, col.Association[string, int](notation).Make(leafString(k), leafInt(v)))
				B = append(B, col.Association[string, int](notation).Make(leafString(k), leafInt(v)))
			}
		}
		anyTable("assoc/string-int", pinned(ds), A, B, emit)
	}
	// nested once
	var nested = sortedCopy(u["nestedseqs"])
	{
		var A, B = make([]any, len(nested)), make([]any, len(nested))
		for i, d := range nested {
			var b = func() any {
				var out = make([][]int, len(d.Es))
				for j, e := range d.Es {
					out[j] = buildSeq(e, "slice", leafInt).([]int)
				}
				return out
			}
			A[i], B[i] = b(), b()
		}
		anyTable("nested/[][]int", pinned(nested), A, B, emit)
		for i, d := range nested {
			var b = func() any {
				var out = col.List[col.ListLike[string]](notation).Make()
				for _, e := range d.Es {
					out.AppendValue(buildSeq(e, "List", leafString).(col.ListLike[string]))
				}
				return out
			}
			A[i], B[i] = b(), b()
		}
		anyTable("nested/List-of-Lists", pinned(nested), A, B, emit)
		for i, d := range nested {
			var b = func() any {
				var out = make([]any, len(d.Es))
				for j, e := range d.Es {
					out[j] = buildSeq(e, "Array", leafInt)
				}
				return col.Array[any](notation).MakeFromArray(out)
			}
			A[i], B[i] = b(), b()
		}
		anyTable("nested/Array-of-Arrays-any", pinned(nested), A, B, emit)
	}
	var nmaps = sortedCopy(u["nestedmaps"])
	{
		var A, B = make([]any, len(nmaps)), make([]any, len(nmaps))
		for i, d := range nmaps {
			A[i] = buildMap(d, "gomap", leafString, func(v Desc) []int { return buildSeq(v, "slice", leafInt).([]int) }, false)
			B[i] = buildMap(d, "gomap", leafString, func(v Desc) []int { return buildSeq(v, "slice", leafInt).([]int) }, true)
		}
		anyTable("nested/map[string][]int", pinned(nmaps), A, B, emit)
	}
	var nilmaps = sortedCopy(u["nilmaps"])
	{
		var val = func(v Desc) any {
			if v.K == "nil" {
				return nil
			}
			return leafInt(v.C)
		}
		var A, B = make([]any, len(nilmaps)), make([]any, len(nilmaps))
		for _, kind := range []string{"gomap", "Map", "Catalog"} {
			var vals = pinned(nilmaps)
			if kind == "Catalog" {
				vals = make([]Val, len(nilmaps))
				for i, d := range nilmaps {
					vals[i] = Val{D: assocSeq(d.Ps), Pin: true}
				}
			}
			for i, d := range nilmaps {
				A[i] = buildMap(d, kind, leafString, val, false)
				B[i] = buildMap(d, kind, leafString, val, true)
			}
			anyTable("nilmaps/"+kind+"/string-any", vals, A, B, emit)
		}
	}
	var withnil = sortedCopy(u["withnil"])
	{
		var leafAny = func(e Desc) any {
			if e.K == "nil" {
				return nil
			}
			return leafString(e.C)
		}
		var A, B = make([]any, len(withnil)), make([]any, len(withnil))
		for i, d := range withnil {
			var b = func(kind string) any {
				var out = make([]any, len(d.Es))
				for j, e := range d.Es {
					out[j] = leafAny(e)
				}
				if kind == "List" {
					return col.List[any](notation).MakeFromArray(out)
				}
				return out
			}
			A[i], B[i] = b("slice"), b("slice")
		}
		anyTable("withnil/[]any", pinned(withnil), A, B, emit)
		for i, d := range withnil {
			var out = func() any {
				var o = make([]any, len(d.Es))
				for j, e := range d.Es {
					o[j] = leafAny(e)
				}
				return col.List[any](notation).MakeFromArray(o)
			}
			A[i], B[i] = out(), out()
		}
		anyTable("withnil/List[any]", pinned(withnil), A, B, emit)
	}
}

// ---- self-containing values and the collator's state (C08) ------------------

type CyclicResult struct {
	Case    string `json:"case"`
	Op      string `json:"op"`
	Outcome string `json:"outcome"` // depth-panic | other-panic | returned | timeout
	Detail  string `json:"detail"`
}

// selfContaining builds a List[any] that contains itself `depth` levels down,
// optionally next to sibling values.
func selfContaining(depth int, siblings bool) any {
	var root = col.List[any](notation).Make()
	var cur = root
	for i := 1; i < depth; i++ {
		var next = col.List[any](notation).Make()
		if siblings {
			cur.AppendValue("sibling")
		}
		cur.AppendValue(next)
		cur = next
	}
	if siblings {
		cur.AppendValue("x")
	}
	cur.AppendValue(root)
	if siblings {
		cur.AppendValue("y")
	}
	return root
}

func tryCyclic(name, op string, f func(c age.CollatorLike[any])) CyclicResult {
	var res = CyclicResult{Case: name, Op: op}
	var done = make(chan struct{})
	go func() {
		defer close(done)
		defer func() {
			if r := recover(); r != nil {
				res.Detail = fmt.Sprint(r)
				if len(res.Detail) > 120 {
					res.Detail = res.Detail[:120]
				}
				if strings.Contains(res.Detail, "maximum traversal depth") {
					res.Outcome = "depth-panic"
				} else {
					res.Outcome = "other-panic"
				}
			}
		}()
		f(age.Collator[any]().Make())
		res.Outcome = "returned"
	}()
	select {
	case <-done:
	case <-time.After(5 * time.Second):
		res.Outcome = "timeout"
	}
	return res
}

// Cyclic runs the self-containing cases; it must be run in a process of its
// own (a stack overflow is fatal).  Afterwards it records a table with a
// collator that has gone through a depth-limit panic.
func Cyclic(u Universe, emitC func(CyclicResult), emit func(Table)) {
	for depth := 1; depth <= 3; depth++ {
		for _, sib := range []bool{false, true} {
			var name = fmt.Sprintf("self-containing List at depth %d, siblings=%v", depth, sib)
			var v, w = selfContaining(depth, sib), selfContaining(depth, sib)
			emitC(tryCyclic(name, "CompareValues", func(c age.CollatorLike[any]) { c.CompareValues(v, w) }))
			emitC(tryCyclic(name, "RankValues", func(c age.CollatorLike[any]) { c.RankValues(v, w) }))
		}
	}
	// slices and maps that reach themselves through an interface
	{
		var s = make([]any, 1)
		s[0] = s
		var t = make([]any, 1)
		t[0] = t
		emitC(tryCyclic("self-containing []any", "CompareValues", func(c age.CollatorLike[any]) { c.CompareValues(s, t) }))
		emitC(tryCyclic("self-containing []any", "RankValues", func(c age.CollatorLike[any]) { c.RankValues(s, t) }))
		var m = map[string]any{}
		m["self"] = m
		var n = map[string]any{}
		n["self"] = n
		emitC(tryCyclic("self-containing map[string]any", "CompareValues", func(c age.CollatorLike[any]) { c.CompareValues(m, n) }))
		emitC(tryCyclic("self-containing map[string]any", "RankValues", func(c age.CollatorLike[any]) { c.RankValues(m, n) }))
	}
	// the same collator after a depth-limit panic, and a fresh one: both must
	// reproduce the acyclic table
	var flat = sortedCopy(u["flatseqs"])
	var A, B = make([]any, len(flat)), make([]any, len(flat))
	for i, d := range flat {
		A[i], B[i] = buildSeq(d, "slice", leafInt), buildSeq(d, "slice", leafInt)
	}
	var show = make([]string, len(A))
	for i, a := range A {
		show[i] = fmt.Sprintf("%v", a)
	}
	for _, op := range []string{"CompareValues", "RankValues"} {
		var used = age.Collator[any]().Make()
		var v, w = selfContaining(2, true), selfContaining(2, true)
		func() {
			defer func() { recover() }()
			if op == "CompareValues" {
				used.CompareValues(v, w)
			} else {
				used.RankValues(v, w)
			}
		}()
		var t = Table{Name: "seq/slice/int", Vals: pinned(flat), Show: show}
		compute(&t, func() age.CollatorLike[any] { return used }, A, B, "after-panic-in-"+op, 5)
		emit(t)
	}
	var t = Table{Name: "seq/slice/int", Vals: pinned(flat), Show: show}
	compute(&t, func() age.CollatorLike[any] { return age.Collator[any]().Make() }, A, B, "fresh", 5)
	emit(t)
}
