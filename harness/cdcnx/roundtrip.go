package cdcnx

import (
	"encoding/json"
	"fmt"
	"math"
	"sort"
	"strconv"
	"strings"
	"time"

	cdc "github.com/craterdog/go-collection-framework/v4/cdcn"
	col "github.com/craterdog/go-collection-framework/v4/collection"
)

var notation = cdc.Notation().Make()

// Atoms: the canonical leaf universe of C10 by class.
var Atoms = map[string][]any{
	"nil":  {nil},
	"bool": {false, true},
	"int": {int64(0), int64(1), int64(-1), int64(42), int64(math.MaxInt64), int64(math.MinInt64), int64(math.MaxInt32) + 1,
		int64(1000000), int64(-1000000)},
	"uint": {uint64(0), uint64(1), uint64(255), uint64(math.MaxInt64), uint64(math.MaxInt64) + 1, uint64(math.MaxUint64)},
	"float": {0.0, math.Copysign(0, -1), 1.0, -1.0, 0.5, 1.5, 123.456, 0.1, 1e5, 123456.0, 1e6, 1.5e6, 1e20, 1e21, 1.5e21, 1e22, 1e100, 1.5e100, 1e-4, 1e-5,
		1.5e-5, 1e-7, 1.5e-7, 1e-100, 2.5e-100, math.MaxFloat64, -math.MaxFloat64, math.SmallestNonzeroFloat64, 2.2250738585072014e-308,
		1.0e+21, 12345678901234567890.0, 0.000001, 0.0000001, float64(float32(0.1)), 3.0e10, 2.0e-10},
	"complex": {complex(1, 2), complex(1, -2), complex(-1.5, 0.5), complex(0, 0), complex(1e6, 1e-7), complex(1e21, -1e21), complex(3, 4),
		complex(math.Copysign(0, -1), 0), complex(1.5e100, 2.5e-100), complex(1.5, math.Copysign(0, -1)), complex(0, math.Copysign(0, -1)),
		complex(math.Copysign(0, -1), math.Copysign(0, -1)), complex(-2.5, -1e-7)},
	"rune": {'a', 'Z', '0', ' ', '\n', '\t', '\\', '\'', '"', rune(0), rune(0x7f), rune(0xa0), rune(0xe9), rune(0x20ac), rune(0x1f600), rune(0x10ffff),
		rune(7), rune(0x1b), rune(0xfffd)},
	"string": {"", "a", "hello world", "a\nb", "tab\there", `quote"inside`, `back\slash`, "Aé\U0001f600", "[1, 2](List)", "\a\b\f\r\v", "it's",
		"\x00nul", "invalid\xffutf8", "\xc3", "ends with backslash\\", `"`, "'", "multi\nline\n", " sep", "0", "nil", "true"},
}

func AtomCounts() []D {
	var out []D
	var names []string
	for c := range Atoms {
		names = append(names, c)
	}
	sort.Strings(names)
	for _, c := range names {
		out = append(out, D{"c": c, "n": len(Atoms[c])})
	}
	return out
}

// Build constructs the real value a descriptor denotes.  Leaves are either
// evaluated literals ({"k":"lit","g":...} built by the caller into "v") or
// atoms {"k":"atom","c":class,"i":index}.
func Build(d any, lits []Lit) any { return build(d, lits, nil) }

// BuildShared builds structurally equal sub-collections as ONE shared object
// (a value may hold the same collection in several places).
func BuildShared(d any, lits []Lit) any { return build(d, lits, map[string]any{}) }

func build(d any, lits []Lit, memo map[string]any) (out any) {
	var x = d.(map[string]any)
	if memo != nil && x["k"] == "coll" {
		var key, _ = json.Marshal(d)
		if v, ok := memo[string(key)]; ok {
			return v
		}
		defer func() { memo[string(key)] = out }()
	}
	switch x["k"] {
	case "atom":
		return Atoms[x["c"].(string)][int(x["i"].(float64))-1]
	case "lit":
		var l = lits[int(x["i"].(float64))-1]
		return literalValue(Expand(l.T), l.C)
	case "assoc":
		return col.Association[any, any](notation).Make(build(x["key"], lits, memo), build(x["val"], lits, memo))
	}
	var items = x["items"].([]any)
	var vals = make([]any, len(items))
	for i, it := range items {
		vals[i] = build(it, lits, memo)
	}
	switch x["kind"] {
	case "Array":
		return col.Array[any](notation).MakeFromArray(vals)
	case "List":
		return col.List[any](notation).MakeFromArray(vals)
	case "Set":
		return col.Set[any](notation).MakeFromArray(vals)
	case "Stack":
		return col.Stack[any](notation).MakeFromArray(vals)
	case "Queue":
		return col.Queue[any](notation).MakeFromArray(vals)
	case "Catalog":
		var c = col.Catalog[any, any](notation).Make()
		for _, v := range vals {
			var a = v.(col.AssociationLike[any, any])
			c.SetValue(a.GetKey(), a.GetValue())
		}
		return c
	case "Map":
		var c = col.Map[any, any](notation).Make()
		for _, v := range vals {
			var a = v.(col.AssociationLike[any, any])
			c.SetValue(a.GetKey(), a.GetValue())
		}
		return c
	}
	panic("unknown kind")
}

func literalValue(text, class string) any {
	switch class {
	case "boolean":
		var b, _ = strconv.ParseBool(text)
		return b
	case "integer":
		var i, _ = strconv.ParseInt(text, 10, 64)
		return i
	case "hexadecimal":
		var u, _ = strconv.ParseUint(strings.TrimPrefix(text, "0x"), 16, 64)
		return u
	case "float":
		var f, _ = strconv.ParseFloat(text, 64)
		return f
	case "complex":
		var c, _ = strconv.ParseComplex(text, 128)
		return c
	case "nil":
		return nil
	case "rune":
		var s, _ = strconv.Unquote(text)
		return []rune(s)[0]
	default:
		var s, _ = strconv.Unquote(text)
		return s
	}
}

func representable(d any, lits []Lit) bool {
	var x = d.(map[string]any)
	switch x["k"] {
	case "lit":
		var l = lits[int(x["i"].(float64))-1]
		var _, ok = EvalLiteral(Expand(l.T), l.C)
		return ok
	case "atom":
		return true
	case "assoc":
		return representable(x["key"], lits) && representable(x["val"], lits)
	}
	for _, it := range x["items"].([]any) {
		if !representable(it, lits) {
			return false
		}
	}
	return true
}

func sortedLines(s string) string {
	var lines = strings.Split(s, "\n")
	sort.Strings(lines)
	return strings.Join(lines, "\n")
}

func hasMap(d any) bool {
	var x, ok = d.(map[string]any)
	if !ok {
		return false
	}
	if x["kind"] == "Map" {
		return true
	}
	for _, k := range []string{"items"} {
		if items, ok := x[k].([]any); ok {
			for _, it := range items {
				if hasMap(it) {
					return true
				}
			}
		}
	}
	return hasMap(x["val"]) || hasMap(x["key"])
}

func format(v any, watchdog time.Duration) (text string, status string, detail string) {
	var done = make(chan struct{})
	go func() {
		defer close(done)
		defer func() {
			if r := recover(); r != nil {
				status, detail = "format-panic", fmt.Sprint(r)
			}
		}()
		text = cdc.Notation().Make().FormatValue(v)
		status = "ok"
	}()
	select {
	case <-done:
	case <-time.After(watchdog):
		return "", "format-timeout", "FormatValue did not return"
	}
	return
}

// RoundTrip formats the value a descriptor denotes, parses the text back and
// formats the result again.
func RoundTrip(d any, lits []Lit, shared bool) (rec Rec, skip bool) {
	if !representable(d, lits) {
		return rec, true
	}
	var v any
	if shared {
		v = BuildShared(d, lits)
	} else {
		v = Build(d, lits)
	}
	var want = Project(v)
	rec = Rec{Want: want, Got: D{"k": "none"}}
	var text, st, detail = format(v, 5*time.Second)
	rec.Text = text
	if st != "ok" {
		rec.Status, rec.Detail = st, detail
		return rec, false
	}
	var out = Parse(text, 5*time.Second)
	rec.Status, rec.Detail = out.Status, out.Detail
	if out.Status != "value" {
		return rec, false
	}
	rec.Got = Project(out.Value)
	var text2, st2, detail2 = format(out.Value, 5*time.Second)
	if st2 != "ok" {
		rec.Status, rec.Detail = "re"+st2, detail2
		return rec, false
	}
	var same = text2 == text
	if !same && hasMap(want) {
		same = sortedLines(text2) == sortedLines(text) // a Map enumerates in an unspecified order
	}
	if !same {
		rec.Status = "text-differs"
		rec.Detail = fmt.Sprintf("formatting the parsed value gives %q", text2)
	}
	return rec, false
}

// ---- purity of FormatValue ---------------------------------------------------

type unknownIntrinsic struct{ X int }

// purityValues: what a call sequence is made of
func purityValue(name string) any {
	switch name {
	case "small":
		return col.List[any](notation).MakeFromArray([]any{int64(1), "a"})
	case "nested":
		var inner = col.Catalog[any, any](notation).Make()
		inner.SetValue("k", col.Set[any](notation).MakeFromArray([]any{int64(2), int64(1)}))
		inner.SetValue("j", int64(3))
		return col.List[any](notation).MakeFromArray([]any{inner, int64(5)})
	case "deep7": // seven nested multi-item levels: within the limit of 8, but only just
		return nest("List", 7, 2)
	case "fail0": // fails at once: not a collection and not an intrinsic
		return col.List[any](notation).MakeFromArray([]any{unknownIntrinsic{1}})
	case "fail2": // fails two levels down, after text has been produced and the indentation raised
		var inner = col.List[any](notation).MakeFromArray([]any{int64(1), unknownIntrinsic{2}})
		return col.List[any](notation).MakeFromArray([]any{int64(0), col.List[any](notation).MakeFromArray([]any{int64(7), inner})})
	}
	panic("unknown purity value " + name)
}

type PurityRec struct {
	Seq    []string `json:"seq"`
	Status string   `json:"status"` // pure | impure
	Detail string   `json:"detail"`
}

// Purity runs a call sequence on ONE notation and on ONE formatter and
// compares every successful result with that of fresh instances.
func Purity(seq []string) PurityRec {
	var rec = PurityRec{Seq: seq, Status: "pure"}
	var sharedN = cdc.Notation().Make()
	var sharedF = cdc.Formatter().Make()
	var used = map[string]func(any) string{"notation": sharedN.FormatValue, "formatter": sharedF.FormatValue}
	for k, name := range seq {
		var v = purityValue(name)
		var want string
		var wantPanic bool
		func() {
			defer func() { wantPanic = recover() != nil }()
			want = cdc.Formatter().Make().FormatValue(v)
		}()
		for _, who := range []string{"notation", "formatter"} {
			var got string
			var gotPanic bool
			func() {
				defer func() { gotPanic = recover() != nil }()
				got = used[who](v)
			}()
			if gotPanic != wantPanic || got != want {
				rec.Status = "impure"
				rec.Detail = fmt.Sprintf("call %d (%s) on the used %s gives %q (panic %v), a fresh one gives %q (panic %v)", k+1, name, who, clipText(got), gotPanic, clipText(want), wantPanic)
				return rec
			}
		}
	}
	return rec
}

func clipText(s string) string {
	if len(s) > 300 {
		return s[:300] + "..."
	}
	return s
}

// ---- totality of FormatValue: deep and self-containing values -----------------

type DeepRec struct {
	Case   string `json:"case"`
	Status string `json:"status"` // ok | format-panic | format-timeout | no-elision
	Detail string `json:"detail"`
}

func nest(kind string, depth int, width int) any {
	var v any = int64(7)
	for i := 0; i < depth; i++ {
		var items = []any{v}
		for w := 1; w < width; w++ {
			items = append(items, int64(w))
		}
		switch kind {
		case "List":
			v = col.List[any](notation).MakeFromArray(items)
		case "Array":
			v = col.Array[any](notation).MakeFromArray(items)
		default:
			var c = col.Catalog[any, any](notation).Make()
			for j, it := range items {
				c.SetValue(int64(j), it)
			}
			v = c
		}
	}
	return v
}

// Deep must run in a process of its own (unbounded recursion is fatal).
func Deep(emit func(DeepRec)) {
	var try = func(name string, v any, wantElision bool) {
		var text, st, detail = format(v, 10*time.Second)
		var rec = DeepRec{Case: name, Status: st, Detail: detail}
		if st == "ok" && wantElision && !strings.Contains(text, "...") {
			rec.Status, rec.Detail = "no-elision", "the text has no elision marker"
		}
		if len(rec.Detail) > 200 {
			rec.Detail = rec.Detail[:200]
		}
		emit(rec)
	}
	for _, kind := range []string{"List", "Array", "Catalog"} {
		for _, width := range []int{1, 2} {
			for _, depth := range []int{7, 8, 9, 12, 40} {
				try(fmt.Sprintf("%s nested %d deep, %d item(s) per level", kind, depth, width), nest(kind, depth, width), depth > 8 && width > 1)
			}
		}
	}
	for _, siblings := range []bool{true, false} {
		for depth := 1; depth <= 3; depth++ {
			var root = col.List[any](notation).Make()
			var cur = root
			for i := 1; i < depth; i++ {
				var next = col.List[any](notation).Make()
				if siblings {
					cur.AppendValue(int64(i))
				}
				cur.AppendValue(next)
				cur = next
			}
			if siblings {
				cur.AppendValue("x")
			}
			cur.AppendValue(root)
			try(fmt.Sprintf("self-containing List at depth %d, siblings=%v", depth, siblings), root, true)
		}
	}
	var c = col.Catalog[any, any](notation).Make()
	c.SetValue("self", c)
	try("Catalog whose only value is itself", c, true)
	var m = map[string]any{}
	m["self"] = m
	try("Go map containing itself", m, true)
}
