package cdcnx

import (
	"encoding/json"
	"regexp"
	"strconv"
	"unicode/utf8"
	"math/rand"
	"reflect"
	"time"
)

type Lit struct {
	T string `json:"t"`
	C string `json:"c"`
	O any    `json:"o"`
}

type Doc struct {
	Toks []string `json:"toks"`
	Mean any      `json:"mean"`
}

type Rec struct {
	Status string `json:"status"`
	Want   any    `json:"want"`
	Got    any    `json:"got"`
	Text   string `json:"text"`
	Detail string `json:"detail"`
	Leak   int    `json:"leak"`
}

var placeholder = regexp.MustCompile(`\{\{([0-9a-f]+)\}\}`)

// Expand replaces {{hex}} placeholders by the rune they stand for (TLC's JSON
// output is not safe for non-ASCII text).
func Expand(s string) string {
	return placeholder.ReplaceAllStringFunc(s, func(m string) string {
		var n, _ = strconv.ParseInt(m[2:len(m)-2], 16, 32)
		return string(rune(n))
	})
}

// evalMean replaces literal indices by independently evaluated leaves; ok is
// false if some literal cannot be represented.
func evalMean(m any, lits []Lit) (any, bool) {
	var x = m.(map[string]any)
	switch x["k"] {
	case "lit":
		var l = lits[int(x["i"].(float64))-1]
		var g, ok = EvalLiteral(Expand(l.T), l.C)
		return D{"k": "lit", "g": g}, ok
	case "assoc":
		var k, ok1 = evalMean(x["key"], lits)
		var v, ok2 = evalMean(x["val"], lits)
		return D{"k": "assoc", "key": k, "val": v}, ok1 && ok2
	default:
		var items = x["items"].([]any)
		var out = make([]any, len(items))
		var ok = true
		for i, it := range items {
			var o bool
			out[i], o = evalMean(it, lits)
			ok = ok && o
		}
		return D{"k": "coll", "kind": x["kind"], "items": out}, ok
	}
}

func norm(v any) any {
	var b, _ = json.Marshal(v)
	var out any
	json.Unmarshal(b, &out)
	return out
}

// ParseDoc parses one generated sentence (twice: plainly and under perturbed
// scheduling of the scanner / parser goroutines) and records the outcome.
func ParseDoc(doc Doc, lits []Lit, r *rand.Rand, perturb func(on bool)) Rec {
	for i := range doc.Toks {
		doc.Toks[i] = Expand(doc.Toks[i])
	}
	var text, _ = Render(doc.Toks, r)
	var want, ok = evalMean(doc.Mean, lits)
	if !ok {
		want = D{"k": "reject"}
	}
	var out = Parse(text, 5*time.Second)
	var rec = Rec{Status: out.Status, Want: want, Got: D{"k": "none"}, Text: text, Detail: out.Detail}
	if out.Status == "value" {
		rec.Got = Project(out.Value)
	}
	// the result must be the same however the goroutines are scheduled
	if perturb != nil && out.Status != "timeout" {
		perturb(true)
		var again = Parse(text, 5*time.Second)
		perturb(false)
		var g2 any = D{"k": "none"}
		if again.Status == "value" {
			g2 = Project(again.Value)
		}
		if again.Status != out.Status || !reflect.DeepEqual(norm(g2), norm(rec.Got)) {
			rec.Status = "nondeterministic"
			rec.Detail = "second run under perturbed scheduling: " + again.Status + " " + again.Detail
		}
	}
	return rec
}

type Rec12 struct {
	Status string  `json:"status"`
	Pieces []Piece `json:"pieces"`
	Total  int     `json:"total"`
	Diag   D       `json:"diag"`
	Text   string  `json:"text"`
	Detail string  `json:"detail"`
}

// ParseTokens renders an abstract token sequence and records the outcome of a
// fresh parser; if `shared` is given the same text is then parsed by that
// long-lived notation instance, which must behave exactly like the fresh one
// whatever it parsed before.
func ParseTokens(toks []string, r *rand.Rand, shared ...func(string) any) Rec12 {
	for i := range toks {
		toks[i] = Expand(toks[i])
	}
	var text, pieces = Render(toks, r)
	var out = Parse(text, 5*time.Second)
	for i, sh := range shared {
		if out.Status == "timeout" || out.Status == "history-dependent" {
			break
		}
		var again = ParseWith(sh, text, 5*time.Second)
		if again.Status != out.Status || !reflect.DeepEqual(again.Diag, out.Diag) {
			out.Status = "history-dependent"
			out.Detail = []string{"a notation", "a parser"}[i%2] + " that has parsed other inputs before: " + again.Status + " " + again.Detail
		}
	}
	return Rec12{Status: out.Status, Pieces: pieces, Total: utf8.RuneCountInString(text), Diag: out.Diag, Text: text, Detail: out.Detail}
}
