package indepx

import (
	"fmt"
	age "github.com/craterdog/go-collection-framework/v4/agent"
	col "github.com/craterdog/go-collection-framework/v4/collection"
	"sync"
)

// Trial is one first-use race on a class accessor: g goroutines released
// together call the accessor for a type parameter nobody has used before.
type Trial struct {
	Accessor string `json:"accessor"`
	Type     string `json:"type"`
	Distinct int    `json:"distinct"` // number of different classes returned (must be 1)
}

func race(g int, f func() any) int {
	var out = make([]any, g)
	var start = make(chan struct{})
	var wg sync.WaitGroup
	for i := 0; i < g; i++ {
		var i = i
		wg.Add(1)
		go func() {
			defer wg.Done()
			<-start
			out[i] = f()
		}()
	}
	close(start)
	wg.Wait()
	var seen = map[any]bool{}
	for _, c := range out {
		seen[c] = true
	}
	// later calls must return the same class too
	seen[f()] = true
	return len(seen)
}

func probe[T comparable](name string, g int, emit func(Trial)) {
	emit(Trial{"List", name, race(g, func() any { return col.List[T](nil) })})
	emit(Trial{"Array", name, race(g, func() any { return col.Array[T](nil) })})
	emit(Trial{"Set", name, race(g, func() any { return col.Set[T](nil) })})
	emit(Trial{"Stack", name, race(g, func() any { return col.Stack[T](nil) })})
	emit(Trial{"Queue", name, race(g, func() any { return col.Queue[T](nil) })})
	emit(Trial{"Catalog", name, race(g, func() any { return col.Catalog[T, T](nil) })})
	emit(Trial{"Map", name, race(g, func() any { return col.Map[T, T](nil) })})
	emit(Trial{"Association", name, race(g, func() any { return col.Association[T, T](nil) })})
	emit(Trial{"Collator", name, race(g, func() any { return age.Collator[T]() })})
	emit(Trial{"Sorter", name, race(g, func() any { return age.Sorter[T]() })})
	emit(Trial{"Iterator", name, race(g, func() any { return age.Iterator[T]() })})
}

// Registry runs the first-use races for 24 fresh type parameters.
func Registry(g int, emit func(Trial)) {
	probe[[1]int8]("[1]int8", g, emit)
	probe[[2]int8]("[2]int8", g, emit)
	probe[[3]int8]("[3]int8", g, emit)
	probe[[4]int8]("[4]int8", g, emit)
	probe[[5]int8]("[5]int8", g, emit)
	probe[[6]int8]("[6]int8", g, emit)
	probe[[7]int8]("[7]int8", g, emit)
	probe[[8]int8]("[8]int8", g, emit)
	probe[[9]int8]("[9]int8", g, emit)
	probe[[10]int8]("[10]int8", g, emit)
	probe[[11]int8]("[11]int8", g, emit)
	probe[[12]int8]("[12]int8", g, emit)
	probe[[13]int8]("[13]int8", g, emit)
	probe[[14]int8]("[14]int8", g, emit)
	probe[[15]int8]("[15]int8", g, emit)
	probe[[16]int8]("[16]int8", g, emit)
	probe[[17]int8]("[17]int8", g, emit)
	probe[[18]int8]("[18]int8", g, emit)
	probe[[19]int8]("[19]int8", g, emit)
	probe[[20]int8]("[20]int8", g, emit)
	probe[[21]int8]("[21]int8", g, emit)
	probe[[22]int8]("[22]int8", g, emit)
	probe[[23]int8]("[23]int8", g, emit)
	probe[[24]int8]("[24]int8", g, emit)
}

// ---- histories of accessor calls (Registry.tla, MODE = "gen") -----------------

// SeqRec is one sequential history of accessor calls: Types[i] is the type
// parameter (index into the table below) of the i-th call, Classes[i] the
// class it returned (numbered by first appearance within the history), Self
// tells whether an instance made by each returned class names that class.
type SeqRec struct {
	Accessor string `json:"accessor"`
	Types    []int  `json:"types"`
	Classes  []int  `json:"classes"`
	Self     bool   `json:"self"`
}

type marker interface{ VerifMarker() }

type accessor struct {
	name string
	get  func() any
	self func() bool // an instance made by the class reports that class
}

func accessorsFor[T comparable]() []accessor {
	return []accessor{
		{"List", func() any { return col.List[T](nil) }, func() bool { var c = col.List[T](nil); return c.Make().GetClass() == c }},
		{"Array", func() any { return col.Array[T](nil) }, func() bool { var c = col.Array[T](nil); return c.Make(1).GetClass() == c }},
		{"Set", func() any { return col.Set[T](nil) }, func() bool { var c = col.Set[T](nil); return c.Make().GetClass() == c }},
		{"Stack", func() any { return col.Stack[T](nil) }, func() bool { var c = col.Stack[T](nil); return c.Make().GetClass() == c }},
		{"Queue", func() any { return col.Queue[T](nil) }, func() bool { var c = col.Queue[T](nil); return c.Make().GetClass() == c }},
		{"Catalog", func() any { return col.Catalog[T, T](nil) }, func() bool { var c = col.Catalog[T, T](nil); return c.Make().GetClass() == c }},
		{"Map", func() any { return col.Map[T, T](nil) }, func() bool { var c = col.Map[T, T](nil); return c.Make().GetClass() == c }},
		{"Collator", func() any { return age.Collator[T]() }, func() bool { var c = age.Collator[T](); return c.Make().GetClass() == c }},
		{"Sorter", func() any { return age.Sorter[T]() }, func() bool { var c = age.Sorter[T](); return c.Make().GetClass() == c }},
		{"Iterator", func() any { return age.Iterator[T]() }, func() bool { var c = age.Iterator[T](); return c.MakeFromArray([]T{}).GetClass() == c }},
	}
}

// the type parameters of the histories: interface types (whose zero value
// carries no dynamic type) next to concrete ones
var seqTypes = [][]accessor{
	accessorsFor[any](),
	accessorsFor[error](),
	accessorsFor[fmt.Stringer](),
	accessorsFor[marker](),
	accessorsFor[[25]int8](),
	accessorsFor[*int](),
}

// NumSeqTypes is the number of type parameters available to the histories.
func NumSeqTypes() int { return len(seqTypes) }

// Sequences runs every history (types are 1-based indices) on every accessor.
func Sequences(seqs [][]int, emit func(SeqRec)) {
	for a := range seqTypes[0] {
		for _, seq := range seqs {
			var rec = SeqRec{Accessor: seqTypes[0][a].name, Types: seq, Classes: []int{}, Self: true}
			var ids = map[any]int{}
			for _, t := range seq {
				var acc = seqTypes[t-1][a]
				var c = acc.get()
				if _, ok := ids[c]; !ok {
					ids[c] = len(ids) + 1
				}
				rec.Classes = append(rec.Classes, ids[c])
				if !acc.self() {
					rec.Self = false
				}
			}
			emit(rec)
		}
	}
}
