// Package indepx checks C19: operations on DISTINCT instances from different
// goroutines give the results of running them one after another, and the
// generic class accessors always return the one class of a type.
package indepx

import (
	"encoding/json"
	"fmt"
	"math/rand"
	"sort"
	"strings"
	"sync"
	"time"

	mod "github.com/craterdog/go-collection-framework/v4"
	age "github.com/craterdog/go-collection-framework/v4/agent"
	cdc "github.com/craterdog/go-collection-framework/v4/cdcn"
	col "github.com/craterdog/go-collection-framework/v4/collection"
	"verif/harness/world"
)

// A Family builds its own instances from the seed, works on them and returns
// a digest of everything it observed.
type Family func(seed int64) string

func guard(f func() string) (out string) {
	defer func() {
		if r := recover(); r != nil {
			var s = fmt.Sprint(r)
			if len(s) > 200 {
				s = s[:200]
			}
			out = "PANIC: " + s
		}
	}()
	return f()
}

var notation = cdc.Notation().Make()

func intList(r *rand.Rand, n int) []int {
	var a = make([]int, n)
	for i := range a {
		a[i] = r.Intn(1000)
	}
	return a
}

var Families = map[string]Family{
	// String() of collections whose element types are the same in every goroutine
	"string": func(seed int64) string {
		var r = rand.New(rand.NewSource(seed))
		var list = col.List[int](notation).MakeFromArray(intList(r, 3+r.Intn(20)))
		var set = col.Set[string](notation).Make()
		var cat = col.Catalog[string, int](notation).Make()
		for i := 0; i < 12; i++ {
			var k = fmt.Sprintf("k%03d", r.Intn(500))
			set.AddValue(k)
			cat.SetValue(k, r.Intn(100))
		}
		var sb strings.Builder
		for i := 0; i < 30; i++ {
			sb.WriteString(fmt.Sprint(list))
			sb.WriteString(fmt.Sprint(set))
			sb.WriteString(fmt.Sprint(cat))
		}
		return sb.String()
	},
	// own notation: format and parse
	"format": func(seed int64) string {
		var r = rand.New(rand.NewSource(seed))
		var n = cdc.Notation().Make()
		var sb strings.Builder
		for i := 0; i < 20; i++ {
			var inner = col.List[any](n).MakeFromArray([]any{int64(r.Intn(50)), fmt.Sprintf("s%d", r.Intn(50)), float64(r.Intn(9)) + 0.5})
			var outer = col.Catalog[any, any](n).Make()
			outer.SetValue(fmt.Sprintf("key%d", r.Intn(9)), inner)
			outer.SetValue(int64(r.Intn(9)), col.Set[any](n).MakeFromArray([]any{int64(r.Intn(5)), int64(r.Intn(5))}))
			var text = n.FormatValue(outer)
			sb.WriteString(text)
			sb.WriteString(n.FormatValue(n.ParseSource(text)))
			sb.WriteString(mod.FormatValue(mod.ParseSource(text)))
		}
		return sb.String()
	},
	// sorting composite values with the default ranker (collator with a depth counter)
	"sortdefault": func(seed int64) string {
		var r = rand.New(rand.NewSource(seed))
		var sb strings.Builder
		for i := 0; i < 10; i++ {
			var arr = make([][]int, 8+r.Intn(40))
			for j := range arr {
				arr[j] = intList(r, r.Intn(4))
			}
			age.Sorter[[]int]().Make().SortValues(arr)
			sb.WriteString(fmt.Sprint(arr))
			var x = col.Array[[]int](notation).MakeFromArray(arr)
			x.ShuffleValues()
			x.SortValues()
			sb.WriteString(fmt.Sprint(x.AsArray()))
			var l = col.List[[]int](notation).MakeFromArray(arr)
			l.ReverseValues()
			l.SortValues()
			sb.WriteString(fmt.Sprint(l.AsArray()))
		}
		return sb.String()
	},
	// own collator: compare and rank composite values, search in lists and sets of composites
	"collate": func(seed int64) string {
		var r = rand.New(rand.NewSource(seed))
		var c = age.Collator[any]().Make()
		var sb strings.Builder
		var vals []any
		for i := 0; i < 12; i++ {
			vals = append(vals, []any{int64(r.Intn(3)), []any{fmt.Sprint(r.Intn(3)), map[string]int{"a": r.Intn(2), "b": r.Intn(2)}}})
		}
		for _, a := range vals {
			for _, b := range vals {
				sb.WriteString(fmt.Sprint(c.RankValues(a, b), c.CompareValues(a, b), " "))
			}
		}
		var set = col.Set[[]int](notation).Make()
		var list = col.List[[]int](notation).Make()
		for i := 0; i < 30; i++ {
			var v = intList(r, 1+r.Intn(3))
			set.AddValue(v)
			list.AppendValue(v)
			sb.WriteString(fmt.Sprint(set.GetIndex(v), list.GetIndex(v), set.GetSize()))
		}
		return sb.String()
	},
	// searching own lists and sets of deeply nested values: every comparison walks
	// nine levels, so two traversals sharing one depth counter exceed the maximum
	"search": func(seed int64) string {
		var r = rand.New(rand.NewSource(seed))
		var deep = func(leaf int) any {
			var v any = int64(leaf)
			for i := 0; i < 9; i++ {
				v = []any{v}
			}
			return v
		}
		var list = col.List[any](notation).Make()
		var set = col.Set[any](notation).Make()
		for i := 0; i < 12; i++ {
			var x = r.Intn(9)
			list.AppendValue(deep(x))
			set.AddValue(deep(x))
		}
		var probe = col.List[any](notation).MakeFromArray([]any{deep(3), deep(11)})
		var sb strings.Builder
		for i := 0; i < 40; i++ {
			var v = deep(r.Intn(12))
			sb.WriteString(fmt.Sprint(list.GetIndex(v), list.ContainsValue(v), set.GetIndex(v), set.ContainsValue(v),
				list.ContainsAny(probe), list.ContainsAll(probe), set.ContainsAny(probe), " "))
		}
		return sb.String()
	},
	// own notation: parsing documents longer than the token queue, also wrong ones;
	// own iterators in both directions
	"parseiter": func(seed int64) string {
		var r = rand.New(rand.NewSource(seed))
		var n = cdc.Notation().Make()
		var sb strings.Builder
		for i := 0; i < 12; i++ {
			var items []string
			for j := 0; j < 18+r.Intn(20); j++ {
				items = append(items, fmt.Sprint(r.Intn(100)))
			}
			var text = "[" + strings.Join(items, ", ") + "](List)"
			if i%4 == 3 {
				text = strings.Replace(text, ", ", ", ]", 1) // a syntax error early in a long document
			}
			sb.WriteString(guard(func() string {
				var l = n.ParseSource(text).(col.ListLike[any])
				var it = l.GetIterator()
				var out []any
				for it.HasNext() {
					out = append(out, it.GetNext())
				}
				it.ToSlot(-3)
				for it.HasPrevious() {
					out = append(out, it.GetPrevious())
				}
				return fmt.Sprint(out, it.GetSlot())
			}))
		}
		return sb.String()
	},
	// build / mutate / search / iterate on own collections, logged as a World trace
	"mutate": func(seed int64) string {
		var in = world.NewInterp(world.IntCodec(), world.StringCodec())
		var fam = []string{"list", "set", "catalog", "stack", "map"}[int(seed%5+5)%5]
		var lines []world.Line
		in.RunRandom(fam, int(seed%100000), seed, 60, 10, func(l world.Line) { lines = append(lines, l) }, 5*time.Second)
		var b, _ = json.Marshal(lines)
		return string(b)
	},
}

type Result struct {
	Family     string   `json:"family"`
	Goroutines int      `json:"goroutines"`
	Round      int      `json:"round"`
	Mismatches int      `json:"mismatches"`
	Sample     []string `json:"sample"`
	Traces     []string `json:"-"`
}

// Pair runs two families (possibly the same) concurrently in g goroutines on
// disjoint instances and compares every digest with the sequential run.
func Pair(f1, f2 string, g int, round int, seed int64) Result {
	var res = Result{Family: f1 + "+" + f2, Goroutines: g, Round: round, Sample: []string{}}
	var seeds = make([]int64, g)
	var fams = make([]string, g)
	for i := range seeds {
		seeds[i] = seed*1000 + int64(round*100+i)
		fams[i] = f1
		if i%2 == 1 {
			fams[i] = f2
		}
	}
	var conc = make([]string, g)
	var start = make(chan struct{})
	var wg sync.WaitGroup
	for i := 0; i < g; i++ {
		var i = i
		wg.Add(1)
		go func() {
			defer wg.Done()
			<-start
			conc[i] = guard(func() string { return Families[fams[i]](seeds[i]) })
		}()
	}
	close(start)
	wg.Wait()
	for i := 0; i < g; i++ {
		var want = guard(func() string { return Families[fams[i]](seeds[i]) })
		if fams[i] == "mutate" {
			res.Traces = append(res.Traces, conc[i])
			continue // random choices (shuffle, map order): the trace is judged by the World specification instead
		}
		if want != conc[i] {
			res.Mismatches++
			if len(res.Sample) < 2 {
				res.Sample = append(res.Sample, fams[i]+": concurrent "+clip(diff(conc[i], want))+" / sequential "+clip(diff(want, conc[i])))
			}
		}
	}
	return res
}

func clip(s string) string {
	if len(s) > 160 {
		return s[:160]
	}
	return s
}

// diff returns a around the first position where a and b differ.
func diff(a, b string) string {
	var i = 0
	for i < len(a) && i < len(b) && a[i] == b[i] {
		i++
	}
	var lo = i - 30
	if lo < 0 {
		lo = 0
	}
	var hi = i + 80
	if hi > len(a) {
		hi = len(a)
	}
	return fmt.Sprintf("%q", a[lo:hi])
}

func FamilyNames() []string {
	var n []string
	for k := range Families {
		n = append(n, k)
	}
	sort.Strings(n)
	return n
}
