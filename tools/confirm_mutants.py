#!/usr/bin/env python3
"""Confirms every sub-agent mutant in a scratch worktree of /repo (existing
tests pass with it, its demonstration fails with it and passes without it)
and stores it under /verif/seeded/<id>-mN/ with a meta.json."""
import json, os, re, shutil, subprocess, sys
ENV = dict(os.environ, GOFLAGS='-mod=mod', GOPROXY='off', GOSUMDB='off', GOTOOLCHAIN='local')
WT = '/tmp/wtc'
props = {json.loads(l)['id']: json.loads(l) for l in open('/verif/properties.jsonl')}
DETECT = json.load(open('/verif/seeded/detection.json')) if os.path.exists('/verif/seeded/detection.json') else {}


def sh(cmd, cwd=None, timeout=600):
    r = subprocess.run(cmd, shell=True, cwd=cwd, env=ENV, capture_output=True, text=True, timeout=timeout)
    return r.returncode, (r.stdout + r.stderr)


def pkgdir(demo):
    txt = open(demo).read()
    m = re.search(r'^package\s+(\w+)', txt, re.M)
    pkg = m.group(1) if m else ''
    return {'collection_test': 'v4/collection', 'collection': 'v4/collection', 'agent_test': 'v4/agent', 'agent': 'v4/agent',
            'cdcn_test': 'v4/cdcn', 'cdcn': 'v4/cdcn', 'module_test': 'v4', 'module': 'v4'}.get(pkg, 'v4/collection')


def main():
    only = [a for a in sys.argv[1:] if not a.startswith('--')]
    rnd2 = '--round2' in sys.argv
    sh('git -C /repo worktree remove --force %s' % WT)
    shutil.rmtree(WT, ignore_errors=True)
    rc, out = sh('git -C /repo worktree add --detach %s HEAD' % WT)
    assert rc == 0, out
    head = sh('git -C /repo rev-parse --short HEAD')[1].strip()
    summary = []
    for pid in sorted(props):
        for mn in (('m1', 'm2', 'm3') if rnd2 else ('m1', 'm2')):
            key = '%s-%s%s' % (pid, 'r2' if rnd2 else '', mn)
            if only and key not in only:
                continue
            src = '/tmp/seeded%s/%s/%s' % ('2' if rnd2 else '', pid, mn)
            if rnd2 and not os.path.isdir(src):
                continue
            dst = '/verif/seeded/%s' % key
            demo = os.path.join(src, 'demo_test.go') if os.path.exists(os.path.join(src, 'demo_test.go')) else os.path.join(dst, 'demo_test.go')
            patch = os.path.join(dst, 'patch.diff') if os.path.exists(os.path.join(dst, 'patch.diff')) else os.path.join(src, 'patch.diff')
            if not os.path.exists(demo) or not os.path.exists(patch):
                summary.append((key, 'missing files'))
                continue
            d = pkgdir(demo)
            tests = re.findall(r'func (Test\w+)\(', open(demo).read())
            runarg = '^(%s)$' % '|'.join(tests)
            meta = {'id': key, 'property': pid, 'breaks': props[pid]['title'], 'base_commit': head, 'demo_dir': d, 'demo_tests': tests, 'ran': []}
            sh('git checkout -q -- . && git clean -fdq', cwd=WT)
            # 1. demo passes without the change
            shutil.copy(demo, os.path.join(WT, d, 'zz_seeded_demo_test.go'))
            rc1, o1 = sh('go test -count=1 -run "%s" ./%s' % (runarg, d[3:] or '.'), cwd=os.path.join(WT, 'v4'))
            meta['ran'].append({'cmd': 'demo without the change', 'exit': rc1})
            os.remove(os.path.join(WT, d, 'zz_seeded_demo_test.go'))
            # 2. the change applies, compiles, existing tests pass
            rca, oa = sh('git apply --3way %s' % patch, cwd=WT)
            if rca != 0:
                sh('git reset -q --hard HEAD', cwd=WT)
                summary.append((key, 'patch does not apply to the current tree'))
                meta['status'] = 'patch does not apply to the current tree (made obsolete by a fix: commit)'
                os.makedirs(dst, exist_ok=True)
                json.dump(meta, open(os.path.join(dst, 'meta.json'), 'w'), indent=1)
                continue
            sh('git reset -q', cwd=WT)
            rc2, o2 = sh('go build ./... && go test -count=1 ./...', cwd=os.path.join(WT, 'v4'))
            meta['ran'].append({'cmd': 'go build ./... && go test -count=1 ./... with the change', 'exit': rc2})
            # 3. demo fails with the change
            shutil.copy(demo, os.path.join(WT, d, 'zz_seeded_demo_test.go'))
            rc3, o3 = sh('go test -count=1 -run "%s" ./%s' % (runarg, d[3:] or '.'), cwd=os.path.join(WT, 'v4'), timeout=900)
            meta['ran'].append({'cmd': 'demo with the change', 'exit': rc3, 'tail': o3[-400:]})
            sh('git checkout -q -- . && git clean -fdq', cwd=WT)
            ok = rc1 == 0 and rc2 == 0 and rc3 != 0
            meta['confirmed'] = ok
            if rc1 == 0 and rc2 == 0 and rc3 == 0:
                meta['status'] = 'neutralised: with the fix: commits of this repository the demonstration passes with the change too'
            elif not ok:
                meta['status'] = 'not confirmed (demo without: %d, suite with: %d, demo with: %d)' % (rc1, rc2, rc3)
            else:
                meta['status'] = 'confirmed'
            notes = os.path.join(src, 'notes.md')
            if os.path.exists(notes):
                txt = open(notes).read()
                meta['needs_to_manifest'] = ' '.join(txt.split())[:900]
            meta['detected_by'] = DETECT.get(key, 'quick tier of ./check %s (VIOLATION)' % pid if ok else 'n/a')
            os.makedirs(dst, exist_ok=True)
            if os.path.abspath(patch) != os.path.abspath(os.path.join(dst, 'patch.diff')):
                shutil.copy(patch, os.path.join(dst, 'patch.diff'))
            if os.path.abspath(demo) != os.path.abspath(os.path.join(dst, 'demo_test.go')):
                shutil.copy(demo, os.path.join(dst, 'demo_test.go'))
            if os.path.exists(notes):
                shutil.copy(notes, os.path.join(dst, 'notes.md'))
            json.dump(meta, open(os.path.join(dst, 'meta.json'), 'w'), indent=1)
            summary.append((key, meta['status']))
            print(key, meta['status'], flush=True)
    sh('git -C /repo worktree remove --force %s' % WT)
    shutil.rmtree(WT, ignore_errors=True)
    print(json.dumps(summary, indent=0))


main()
