#!/bin/sh
# usage: sweep_mutants.sh <dir with Cxx/mN/patch.diff> <outfile> [parallel]
D=$1; OUT=$2; PAR=${3:-3}
: > "$OUT"
ls -d $D/C*/m* | while read m; do
  id=$(basename $(dirname $m)); n=$(basename $m)
  echo "$id $n $m/patch.diff"
done | xargs -P $PAR -L 1 sh -c 'R=$(/verif/tools/try_mutant2.sh $2 $0 | tr "\n" " " | cut -c1-500); echo "$0-$1: $R"' >> "$OUT" 2>&1
rm -rf ${VERIF_MUTANT_GOCACHE:-/tmp/gocache-mutants}
echo SWEEP-DONE >> "$OUT"
