#!/bin/sh
# usage: try_mutant.sh <patch.diff> <property> [tier]  -- applies the patch to /repo, runs the check, reverts
P=$1; ID=$2; TIER=${3:-quick}
cd /repo || exit 9
git diff --quiet || { echo "repo dirty"; exit 9; }
git apply --3way "$P" 2>/tmp/apply.err || git apply "$P" 2>>/tmp/apply.err || { echo "APPLY-FAILED"; cat /tmp/apply.err; git reset -q --hard HEAD; git clean -fdq; exit 8; }
cd /verif && VERIF_TIER=$TIER ./check $ID > /tmp/mut_out.txt 2>&1; RC=$?
cd /repo && git reset -q --hard HEAD && git clean -fdq
echo "exit=$RC"; grep -E "^(VIOLATION|KNOWN|INFRA|C[0-9]+ )" /tmp/mut_out.txt | cut -c1-300 | head -8
