#!/usr/bin/env python3
"""Round 3: confirms one sub-agent change (/tmp/r3/out/<ID>/) in a scratch worktree of
/repo (existing tests pass with it, its demonstration passes without it and fails with
it), stores it as /verif/seeded/<ID>-r3m1/, then runs the property's quick check on it
(tools/try_mutant2.sh) and records the outcome in meta.json.
usage: confirm_r3.py <ID> [srcdir]"""
import json, os, re, shutil, subprocess, sys, tempfile
ENV = dict(os.environ, GOFLAGS='-mod=mod', GOPROXY='off', GOSUMDB='off', GOTOOLCHAIN='local',
           GOCACHE='/tmp/gocache-mutants')
props = {json.loads(l)['id']: json.loads(l) for l in open('/verif/properties.jsonl')}


def sh(cmd, cwd=None, timeout=900):
    try:
        r = subprocess.run(cmd, shell=True, cwd=cwd, env=ENV, capture_output=True, text=True, timeout=timeout)
        return r.returncode, (r.stdout + r.stderr)
    except subprocess.TimeoutExpired:
        return 124, 'timeout'


def main():
    pid = sys.argv[1]
    src = sys.argv[2] if len(sys.argv) > 2 else '/tmp/r3/out/%s' % pid
    key = '%s-r3m1' % pid
    dst = '/verif/seeded/%s' % key
    patch, demo = os.path.join(src, 'patch.diff'), os.path.join(src, 'demo_test.go')
    if not (os.path.exists(patch) and os.path.exists(demo)):
        print(key, 'missing files'); return 2
    ameta = json.load(open(os.path.join(src, 'meta.json'))) if os.path.exists(os.path.join(src, 'meta.json')) else {}
    d = ameta.get('demo_dir', '').strip('/') or 'v4/collection'
    m = re.search(r'place in:\s*(v4[\w/]*)', open(demo).read())
    if m:
        d = m.group(1).strip('/')
    tests = re.findall(r'func (Test\w+)\(', open(demo).read())
    runarg = '^(%s)$' % '|'.join(tests)
    wt = tempfile.mkdtemp(prefix='wtc3-', dir='/tmp'); os.rmdir(wt)
    rc, out = sh('git -C /repo worktree add -q --detach %s HEAD' % wt)
    assert rc == 0, out
    head = sh('git -C /repo rev-parse --short HEAD')[1].strip()
    meta = {'id': key, 'property': pid, 'breaks': props[pid]['title'], 'base_commit': head, 'demo_dir': d,
            'demo_tests': tests, 'summary': ameta.get('summary', ''), 'needs_to_manifest': ameta.get('needs', ''), 'ran': []}
    pk = './' + (d[3:] or '.')
    try:
        f = os.path.join(wt, d, 'zz_seeded_demo_test.go')
        shutil.copy(demo, f)
        rc1, o1 = sh('go test -vet=off -count=1 -timeout 120s -run "%s" %s' % (runarg, pk), cwd=os.path.join(wt, 'v4'))
        meta['ran'].append({'cmd': 'demo without the change', 'exit': rc1})
        os.remove(f)
        rca, oa = sh('git apply %s' % patch, cwd=wt)
        rc2, o2 = sh('go build ./... && go test -vet=off -count=1 ./...', cwd=os.path.join(wt, 'v4'))
        meta['ran'].append({'cmd': 'go build ./... && go test -count=1 ./... with the change', 'exit': rc2, 'apply': rca})
        shutil.copy(demo, f)
        rc3, o3 = sh('go test -vet=off -count=1 -timeout 120s -run "%s" %s' % (runarg, pk), cwd=os.path.join(wt, 'v4'))
        meta['ran'].append({'cmd': 'demo with the change', 'exit': rc3, 'tail': o3[-500:]})
    finally:
        sh('git -C /repo worktree remove --force %s' % wt); shutil.rmtree(wt, ignore_errors=True)
    ok = rc1 == 0 and rca == 0 and rc2 == 0 and rc3 != 0
    meta['confirmed'] = ok
    if not ok:
        print(key, 'NOT CONFIRMED', [(r['cmd'], r['exit']) for r in meta['ran']], (o1 if rc1 else o2 if rc2 else o3)[-400:])
        return 1
    os.makedirs(dst, exist_ok=True)
    shutil.copy(patch, os.path.join(dst, 'patch.diff')); shutil.copy(demo, os.path.join(dst, 'demo_test.go'))
    rc4, o4 = sh('/verif/tools/try_mutant2.sh %s %s' % (os.path.join(dst, 'patch.diff'), pid), timeout=1800)
    mm = re.search(r'exit=(\d+)', o4)
    meta['detected_by'] = {'check': pid, 'tier': 'quick', 'exit': int(mm.group(1)) if mm else None,
                           'first_report': o4.strip()[:600]}
    json.dump(meta, open(os.path.join(dst, 'meta.json'), 'w'), indent=1)
    print(key, 'confirmed;', o4.strip()[:400].replace('\n', ' | '))
    return 0


sys.exit(main())
