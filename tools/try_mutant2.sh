#!/bin/sh
# usage: try_mutant2.sh <patch.diff> <property> [tier]
# Applies the patch in a scratch worktree of /repo (never in /repo itself), runs the
# check against that tree (VERIF_REPO), removes the worktree.
P=$1; ID=$2; TIER=${3:-quick}
# builds against scratch trees go to a build cache of their own (removed by the sweep scripts)
export GOCACHE=${VERIF_MUTANT_GOCACHE:-/tmp/gocache-mutants}
W=$(mktemp -d /tmp/mt-XXXXXX)
git -C /repo worktree add -q --detach "$W" HEAD || exit 9
( cd "$W" && (git apply --3way "$P" 2>/dev/null || git apply "$P") ) || { echo "APPLY-FAILED"; git -C /repo worktree remove --force "$W"; exit 8; }
OUT=$(mktemp /tmp/mtout-XXXXXX)
E=$(mktemp -d /tmp/mtev-XXXXXX); ( cd /verif && VERIF_EVID="$E" VERIF_REPO="$W" VERIF_TIER=$TIER ./check $ID > "$OUT" 2>&1 ); RC=$?; rm -rf "$E"
git -C /repo worktree remove --force "$W"; rm -rf "$W"
echo "exit=$RC $(grep -E '^(C[0-9]+ )' "$OUT" | tail -1)"; grep -E "^(VIOLATION|INFRA)" "$OUT" | head -2 | cut -c1-200; grep -A1 "^VIOLATION" "$OUT" | grep -v "^VIOLATION\|^--" | head -2 | cut -c1-300
rm -f "$OUT"
