#!/bin/sh
# Offline setup after a fresh restore: warm the Go build cache for the harness
# (against /repo as it is) and parse every specification once.
set -e
export GOFLAGS=-mod=mod GOPROXY=off GOSUMDB=off GOTOOLCHAIN=local
cd /verif/harness
cp /repo/v4/go.sum go.sum
T=$(mktemp -d)
go build -tags verif -o "$T/vh" ./cmd/vh
rm -rf "$T"
cd /verif/spec
T=$(mktemp -d)
cp *.tla "$T"/
cd "$T"
for f in *.tla; do tla-sany "$f" > sany.out 2>&1 || { cat sany.out; echo "SANY failed on $f"; exit 1; }; done
cd /; rm -rf "$T"
echo setup ok
