#!/bin/sh
# Behaviour-preserving variants of the library (seeded/neutral/*.diff): every
# listed check must stay green on them (MODEL-DRIFT lines are expected).
# usage: try_neutral.sh [outfile]
OUT=${1:-/dev/stdout}
for spec in "N1-queue-extra-lock C04 C05" "N2-sorter-insertion-for-short C09 C02" "N3-fork-delivers-last-output-first C06" \
            "N4-parser-token-queue-of-4 C11 C12" "N5-set-linear-search C02 C15" \
            "N6-queue-with-condition-variables C04 C05 C06 C12 C17"; do
  set -- $spec; n=$1; shift
  for id in "$@"; do
    R=$(/verif/tools/try_mutant2.sh /verif/seeded/neutral/$n.diff $id | head -1)
    echo "$n $id: $R" >> "$OUT"
  done
done
# refactorings written by sub-agents who saw only the property texts (seeded/neutral/<group>-nK/)
while read g n id; do
  R=$(/verif/tools/try_mutant2.sh /verif/seeded/neutral/$g-$n/patch.diff $id | head -1)
  echo "$g-$n $id: $R" >> "$OUT"
done <<'JOBS'
NA n1 C01
NA n1 C02
NA n1 C03
NA n1 C13
NA n1 C17
NA n1 C18
NA n2 C02
NA n2 C15
NA n3 C03
NA n3 C16
NA n4 C13
NA n4 C14
NA n4 C18
NB n1 C15
NB n1 C02
NB n2 C16
NB n2 C03
NB n3 C01
NB n3 C18
NB n3 C17
NB n4 C20
NC n1 C10
NC n1 C19
NC n2 C11
NC n2 C12
NC n3 C11
NC n3 C12
NC n3 C10
NC n4 C12
NC n4 C11
ND n1 C09
ND n1 C07
ND n2 C07
ND n2 C08
ND n3 C19
ND n4 C01
ND n4 C09
ND n4 C18
JOBS
rm -rf ${VERIF_MUTANT_GOCACHE:-/tmp/gocache-mutants}
