#!/bin/sh
# Behaviour-preserving variants of the library (seeded/neutral/*.diff): every
# listed check must stay green on them (MODEL-DRIFT lines are expected).
# usage: try_neutral.sh [outfile]
OUT=${1:-/dev/stdout}
for spec in "N1-queue-extra-lock C04 C05" "N2-sorter-insertion-for-short C09 C02" "N3-fork-delivers-last-output-first C06" \
            "N4-parser-token-queue-of-4 C11 C12" "N5-set-linear-search C02 C15"; do
  set -- $spec; n=$1; shift
  for id in "$@"; do
    R=$(/verif/tools/try_mutant2.sh /verif/seeded/neutral/$n.diff $id | head -1)
    echo "$n $id: $R" >> "$OUT"
  done
done
rm -rf ${VERIF_MUTANT_GOCACHE:-/tmp/gocache-mutants}
