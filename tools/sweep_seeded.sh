#!/bin/sh
# usage: sweep_seeded.sh <outfile> [parallel] [name-pattern]
# Runs the quick check of its property against every seeded change stored under
# /verif/seeded (each in its own scratch worktree; /repo is never touched).
OUT=$1; PAR=${2:-3}; PAT=${3:-C*}
: > "$OUT"
ls -d /verif/seeded/$PAT/ | while read d; do
  n=$(basename $d); id=$(echo $n | cut -c1-3)
  [ -f "$d/patch.diff" ] && echo "$id $n $d/patch.diff"
done | xargs -P $PAR -L 1 sh -c 'R=$(/verif/tools/try_mutant2.sh $2 $0 | tr "\n" " " | cut -c1-600); echo "$1: $R"' >> "$OUT" 2>&1
rm -rf ${VERIF_MUTANT_GOCACHE:-/tmp/gocache-mutants}
echo SWEEP-DONE >> "$OUT"
