#!/usr/bin/env python3
"""Regenerates /verif/MANIFEST.json from the table below (kept in one place so
that it stays valid and current)."""
import json, os, subprocess
V = os.path.dirname(os.path.dirname(os.path.abspath(__file__)))
props = [json.loads(l) for l in open(os.path.join(V, 'properties.jsonl'))]

WORLD_NOTE = ('Trusted: TLC, the JSON trace encoding, the projection of real objects through their public views '
              '(cross-checked against each other), monotone element codecs. Exhaustive only for the stated small '
              'constants; larger sizes are sampled by seeded random histories validated line by line.')

def world(text, ref):
    return dict(engine='world', level=dict(category='model_checking', text=text, design_ref=ref), note=WORLD_NOTE,
                technique='TLA+ state-machine spec (World.tla): TLC edge enumeration replayed on the real code + TLC trace validation of recorded histories')

W = ('TLC enumerates every edge of the %s model (MCWorld family %s) for small constants; each edge is replayed on the real '
     'library after real histories reaching its pre-state (a shortest one, a varied one, and one in which the objects are looked at '
     'only at random moments) and every recorded call, plus seeded random histories on several '
     'element/key types, is validated by TLC against World.tla - result, panic flag, and the projection of every live object '
     '(frame condition) - %s')
CLAIMED = {
 'C01': world(W % ('List/Array', '"list"', 'every index, slot and range around the bounds, aliased operands.'), 'DESIGN.md 4/C01'),
 'C02': world(W % ('Set', '"set", "set2"', 'three collators (natural, reversed, coarse), family "set2": two Sets whose collators are chosen independently, bulk operations across them in both directions; strict ascending order is a type invariant evaluated on every projected state.'), 'DESIGN.md 4/C02'),
 'C03': world(W % ('Catalog', '"catalog", "keysC"', 'GetKeys, AsArray, iterator, GetValue for every key and size are cross-checked by the projection; pointer keys with equal pointees included.'), 'DESIGN.md 4/C03'),
 'C13': world(W % ('Stack', '"stack"', 'capacities 0..MaxLen and constructor arrays of 15, 16, 17 and 33 values around the default capacity.'), 'DESIGN.md 4/C13'),
 'C14': world(W % ('Map', '"map", "keysM"', 'unordered views are compared as sets of associations.'), 'DESIGN.md 4/C14'),
 'C15': world(W % ('Set algebra', '"algebra"', 'all pairs of small sets incl. the same set twice, under three collators; purity is the frame condition.'), 'DESIGN.md 4/C15'),
 'C16': world(W % ('Merge/Extract/Concatenate', '"merge", "catalogfn", "extract", "concat"', 'followed by one change of the result or an operand so that shared state shows as a frame violation.'), 'DESIGN.md 4/C16'),
 'C17': world(W % ('Iterator', '"iter", "iterK"', 'two iterators with every move and ToSlot(k) interleaved with mutations of the source; iterators of all kinds in random histories.'), 'DESIGN.md 4/C17'),
 'C18': world(W % ('aliasing', '"alias", "aliasA"', 'caller-owned Go arrays / maps are first-class objects of the world that the client pokes; any shared storage is a frame violation.'), 'DESIGN.md 4/C18'),
}
QNOTE = ('Trusted: TLC, the Go runtime implementing channels as modelled (FIFO wait queues, hand-off, close broadcast), the verif hooks being '
         'placed at every synchronisation operation of queue.go, the Go race detector for the data-race clause. Exhaustive for the '
         'listed small client programs / configurations; larger ones are sampled by free-running runs.')

def queue(text, ref, tech):
    return dict(engine='queue', level=dict(category='model_checking', text=text, design_ref=ref), note=QNOTE, technique=tech)

CLAIMED.update({
 'C04': queue('TLC explores every interleaving (at the granularity of lock / send / receive / close) of small client programs on '
              'QueueImpl.tla and checks its invariants; an edge-covering set of those behaviours is forced onto real goroutines '
              'through yield hooks with the real state compared after every step; every invoke/return history recorded from the real '
              'queue (forced schedules, the same programs running free, and free-running stress, also under the race detector) is judged by TLC against the '
              'linearizable bounded FIFO of QueueLin.tla.', 'DESIGN.md 4/C04',
              'TLA+ impl-level model (QueueImpl.tla) checked by TLC, schedule replay on real goroutines via hooks, TLC linearizability trace validation against QueueLin.tla'),
 'C05': queue('Same models and replays as C04; judged here: TLC checks NoStuck and Termination (weak fairness) on every program, every '
              'forced schedule must run to completion, behaviours ending in a stuck model state are replayed and the real goroutines '
              'examined, free-running well-formed programs must terminate with every value delivered once, and the constructors are '
              'replayed from the World model with 0..33 initial values.', 'DESIGN.md 4/C05',
              'TLC deadlock/liveness checking of QueueImpl.tla + forced replay of stuck behaviours + termination of recorded runs'),
 'C06': queue('TLC explores every call-level interleaving of feeder, helper goroutines and readers on Pipes.tla (order, round robin, '
              'closure, wait group, termination under weak fairness); an edge cover is forced onto the real Fork/Split/Join pipelines '
              '(helpers adopted through the spawn hook) and every completed real run, forced or free-running (also under the race '
              'detector), is judged by TLC against the stream relations of TracePipes.tla.', 'DESIGN.md 4/C06',
              'TLA+ model of the helper loops (Pipes.tla) checked by TLC, schedule replay via hooks, TLC judgement of recorded runs (TracePipes.tla)'),
})
ANOTE = ('Trusted: TLC evaluating the law modules over tables recorded from the real code, the concretisation of the abstract universe '
         '(checked by building every value twice, independently). The numeric universe is its corner structure, not all numbers.')

def laws(text, ref, tech):
    return dict(engine='laws', level=dict(category='exploration', text=text, design_ref=ref), note=ANOTE, technique=tech)

CLAIMED.update({
 'C07': laws('TLC generates the structural universe (sequences, maps, nested, with nil) which the harness builds in every container kind '
             'and leaf type, next to corner tables of every primitive type; the rank table of the real collator (fresh collator per '
             'pair, and one shared collator in random order) is judged by TLC: reflexive, mirror, transitive over ALL triples, the '
             'documented order (reference semantics in TLA+), no panic, independence of earlier calls.', 'DESIGN.md 4/C07',
             'TLA+ law module (CollatorLaws.tla: reference order + preorder laws) evaluated by TLC over rank tables recorded from the real collator on a TLC-generated universe'),
 'C08': laws('Same tables: TLC checks that CompareValues is an equivalence that holds exactly when RankValues is Equal - which, the '
             'universe being closed under single-point mutation and every value being built twice, covers rebuilt copies and all '
             'single-point mutants; self-containing values run in a process of their own (depth-limit panic expected, no crash, no '
             'hang) and the collator must reproduce the acyclic table afterwards.', 'DESIGN.md 4/C08',
             'TLA+ law module (CollatorLaws.tla) evaluated by TLC over compare/rank tables of the real collator; cyclic cases in a child process'),
 'C09': laws('MergeSort.tla (the algorithm, one ranker call per step) is checked by TLC against the sorting laws for every array up to '
             'length 6-7 and 7 rankers incl. inconsistent ones; TLC enumerates the same inputs for the real sorter and the Array / List / '
             'Catalog methods (plus random arrays up to 5000), every (input, ranker, output) is judged by TLC against SortLaws.tla, and '
             'the logged comparison sequences are validated against the model; every pair of consecutive calls among the Sortable methods '
             'and the mutations of List / Array / Catalog (MCWorld families "sort", "sortA") is replayed and judged against World.tla.', 'DESIGN.md 4/C09',
             'TLA+ algorithm model (MergeSort.tla) checked by TLC + TLC-enumerated inputs run on the real sorter + TLC validation of outputs (SortLaws.tla) and comparison traces'),
})
CNOTE = ('Trusted: TLC generating the documents / token sequences / values from Cdcn.tla and judging the recorded outcomes, the projection of '
         'parsed values through the public API, strconv as the independent evaluator of literal forms. The bounded universe generated '
         'by the specification, not all strings.')

def cdcn(text, ref, tech):
    return dict(engine='cdcn', level=dict(category='exploration', text=text, design_ref=ref), note=CNOTE, technique=tech)

CLAIMED.update({
 'C10': cdcn('TLC generates the values (the meaning of every generated document and every atom of the canonical leaf universe in every '
             'position, also with shared sub-collections); each is formatted, parsed back, projected and formatted again and TLC judges '
             'value and text equality; every call sequence up to length 3-4 incl. failing calls on one notation is compared with fresh '
             'notations (purity); nesting to 40 levels and self-containing values run in a child process (totality).', 'DESIGN.md 4/C10',
             'TLA+ grammar/meaning spec (Cdcn.tla) generating values; round trip on the real formatter+parser; TLC judgement of recorded outcomes'),
 'C11': cdcn('TLC generates the sentences of the grammar from Cdcn.tla (every layout of every collection type, nesting, every literal form '
             'in every single-leaf context, documents longer than the token queue) together with their syntax-directed meaning; each is '
             'rendered with seeded blanks, parsed twice (also under perturbed scanner/parser scheduling through the queue hooks) and the '
             'projected result is judged by TLC against the meaning with literals evaluated independently; unrepresentable literals must '
             'be rejected.', 'DESIGN.md 4/C11',
             'TLA+ grammar + meaning (Cdcn.tla): TLC-generated sentences parsed by the real parser, TLC judgement against the specified meaning'),
 'C12': cdcn('TLC generates every token sequence up to length 4-5 over an abstract alphabet, kind-mismatched documents, prefixes and '
             'error injections at every token boundary of long documents, complete documents of 16/17/40 items of every collection kind; each is parsed by a fresh and by a long-lived notation under a '
             'watchdog; TLC judges the outcome class (value or diagnostic, never a runtime error / hang / history dependence) and '
             'recomputes token positions to locate the diagnostic; scanner goroutines left behind are counted.', 'DESIGN.md 4/C12',
             'TLA+ spec (Cdcn.tla) generating inputs and recomputing token positions; outcomes of the real parser judged by TLC'),
})
CLAIMED.update({
 'C19': cdcn('Registry.tla models the accessor protocol (lock, lookup, insert if absent, unlock) and TLC checks over every interleaving of '
             '3 processes and 2 type parameters that one class is returned per type and never replaced; on the real code: 264 first-use '
             'races of 8 goroutines on all 11 accessors for fresh type parameters, and every pair of operation families (String(), '
             'format/parse, default-ranker sorting of composites, collating, build/mutate/search/iterate) run concurrently in 2, 4 and 16 '
             'goroutines on disjoint instances with each result compared with the sequential run, the World traces of the concurrent '
             'runs validated by TLC, all repeated under the Go race detector; TLC judges the records.', 'DESIGN.md 4/C19',
             'TLA+ model of the class registry checked by TLC + concurrent-vs-sequential runs on disjoint instances judged by TLC (Registry.tla, TraceWorld.tla) + race detector'),
 'C20': cdcn('TLC enumerates the matrix {8 kinds} x documented argument forms x content sizes spanning the default capacity x notation '
             'position from Facade.tla; every cell runs for 7 element types through the module-level constructor, the class-level '
             'constructor and (source forms) the parser; TLC judges: same kind, contents, order, capacity, collator; refused where the '
             'class refuses; Association(k, v) has key k and value v.', 'DESIGN.md 4/C20',
             'TLA+ matrix + law module (Facade.tla): TLC-enumerated cells executed three ways on the real code, outcomes judged by TLC'),
})
CLAIMED['C19']['engine'] = 'indep'
CLAIMED['C20']['engine'] = 'facade'
NOT_YET = 'check not built yet (work in progress; see DESIGN.md section 10)'

hooks_commits = [l.split()[0] for l in subprocess.run(['git', '-C', '/repo', 'log', '--format=%h %s'], capture_output=True, text=True).stdout.splitlines() if ' verif-hook:' in l]

m = {
 'version': 1,
 'setup_cmd': 'cd /verif && ./tools/setup.sh',
 'hooks': {'guard': 'verif', 'enable': 'go build -tags verif (the harness in /verif/harness is always built with this tag)',
           'baseline_off_cmd': 'cd /repo/v4 && GOFLAGS=-mod=mod GOPROXY=off GOSUMDB=off GOTOOLCHAIN=local go test -count=1 ./...',
           'source_commits': hooks_commits, 'add_only': True},
 'engines': [
   {'name': 'queue', 'path': 'spec/QueueImpl.tla spec/QueueLin.tla spec/TraceQueueLin.tla spec/Pipes.tla spec/TracePipes.tla lib/queueeng.py lib/queuechecks.py harness/qsched harness/qstress',
    'serves_properties': [p for p, c in CLAIMED.items() if c['engine'] == 'queue'],
    'kind_free_text': 'implementation-level TLA+ models of the queue and its pipelines; TLC schedules forced onto real goroutines; TLC linearizability validation of recorded histories'},
   {'name': 'laws', 'path': 'spec/CollatorLaws.tla spec/SortLaws.tla spec/MergeSort.tla lib/agentchecks.py harness/agentx',
    'serves_properties': [p for p, c in CLAIMED.items() if c['engine'] == 'laws'],
    'kind_free_text': 'TLA+ law modules evaluated by TLC over observation tables recorded from the real collator / sorter on TLC-generated inputs'},
   {'name': 'cdcn', 'path': 'spec/Cdcn.tla spec/cdcn_literals.json lib/cdcnchecks.py harness/cdcnx',
    'serves_properties': [p for p, c in CLAIMED.items() if c['engine'] == 'cdcn'],
    'kind_free_text': 'TLA+ specification of the CDCN grammar, meaning and token positions; TLC generates inputs and judges recorded outcomes of the real parser/formatter'},
   {'name': 'indep', 'path': 'spec/Registry.tla lib/cdcnchecks.py harness/indepx', 'serves_properties': ['C19'],
    'kind_free_text': 'TLA+ model of the class registry; concurrent runs on disjoint instances compared with sequential runs, judged by TLC; race detector'},
   {'name': 'facade', 'path': 'spec/Facade.tla lib/cdcnchecks.py harness/facadex', 'serves_properties': ['C20'],
    'kind_free_text': 'TLC-enumerated matrix of universal-constructor cells executed three ways, judged by TLC'},
   {'name': 'world', 'path': 'spec/World.tla spec/MCWorld.tla spec/TraceWorld.tla lib/worldeng.py harness/world',
    'serves_properties': [p for p, c in CLAIMED.items() if c['engine'] == 'world'],
    'kind_free_text': 'sequential TLA+ specification of all collection classes; TLC edge export -> replay on real code; TLC trace validation'},
 ],
 'checks': [],
 'notes': 'All verdicts come from behaviour of the real library (built from /repo working tree with -tags verif) judged by a TLA+ specification evaluated by TLC. See DESIGN.md.',
 'not_applicable': [],
}
for p in props:
    pid = p['id']
    if pid in CLAIMED:
        c = CLAIMED[pid]
        m['checks'].append({
            'property_id': pid,
            'quick_cmd': 'cd /verif && VERIF_TIER=quick ./check %s' % pid,
            'thorough_cmd': 'cd /verif && VERIF_TIER=thorough ./check %s' % pid,
            'evidence_file': '/verif/evidence/%s.json' % pid,
            'replay_cmd_template': 'cd /verif && ./check %s --replay {path}' % pid,
            'engine': c['engine'],
            'level_claimed': c['level'],
            'level_note': c['note'],
            'technique': c['technique'],
        })
    else:
        m['not_applicable'].append({'property_id': pid, 'reason': NOT_YET})
json.dump(m, open(os.path.join(V, 'MANIFEST.json'), 'w'), indent=1)
print('claimed', len(m['checks']), 'not_applicable', len(m['not_applicable']))
