#!/usr/bin/env python3
"""Regenerates /verif/MANIFEST.json from the table below (kept in one place so
that it stays valid and current)."""
import json, os, subprocess
V = os.path.dirname(os.path.dirname(os.path.abspath(__file__)))
props = [json.loads(l) for l in open(os.path.join(V, 'properties.jsonl'))]

WORLD_NOTE = ('Trusted: TLC, the JSON trace encoding, the projection of real objects through their public views '
              '(cross-checked against each other), monotone element codecs. Exhaustive only for the stated small '
              'constants; larger sizes are sampled by seeded random histories validated line by line.')

def world(text, ref):
    return dict(engine='world', level=dict(category='model_checking', text=text, design_ref=ref), note=WORLD_NOTE,
                technique='TLA+ state-machine spec (World.tla): TLC edge enumeration replayed on the real code + TLC trace validation of recorded histories')

CLAIMED = {
 'C01': world('TLC enumerates every edge (state, operation, arguments incl. every index/slot/range and aliased operands) of the '
              'List/Array model for small constants; each edge is replayed on the real library after a real history reaching its '
              'pre-state, and every recorded call (plus seeded random histories on five element types) is validated by TLC against '
              'World.tla including the frame condition on every other live object.', 'DESIGN.md 4/C01'),
}
NOT_YET = 'check not built yet (work in progress; see DESIGN.md section 10)'

hooks_commits = [l.split()[0] for l in subprocess.run(['git', '-C', '/repo', 'log', '--format=%h %s'], capture_output=True, text=True).stdout.splitlines() if ' verif-hook:' in l]

m = {
 'version': 1,
 'setup_cmd': 'cd /verif && ./tools/setup.sh',
 'hooks': {'guard': 'verif', 'enable': 'go build -tags verif (the harness in /verif/harness is always built with this tag)',
           'baseline_off_cmd': 'cd /repo/v4 && GOFLAGS=-mod=mod GOPROXY=off GOSUMDB=off GOTOOLCHAIN=local go test -count=1 ./...',
           'source_commits': hooks_commits, 'add_only': True},
 'engines': [
   {'name': 'world', 'path': 'spec/World.tla spec/MCWorld.tla spec/TraceWorld.tla lib/worldeng.py harness/world',
    'serves_properties': [p for p, c in CLAIMED.items() if c['engine'] == 'world'],
    'kind_free_text': 'sequential TLA+ specification of all collection classes; TLC edge export -> replay on real code; TLC trace validation'},
 ],
 'checks': [],
 'notes': 'All verdicts come from behaviour of the real library (built from /repo working tree with -tags verif) judged by a TLA+ specification evaluated by TLC. See DESIGN.md.',
 'not_applicable': [],
}
for p in props:
    pid = p['id']
    if pid in CLAIMED:
        c = CLAIMED[pid]
        m['checks'].append({
            'property_id': pid,
            'quick_cmd': 'cd /verif && VERIF_TIER=quick ./check %s' % pid,
            'thorough_cmd': 'cd /verif && VERIF_TIER=thorough ./check %s' % pid,
            'evidence_file': '/verif/evidence/%s.json' % pid,
            'replay_cmd_template': 'cd /verif && ./check %s --replay {path}' % pid,
            'engine': c['engine'],
            'level_claimed': c['level'],
            'level_note': c['note'],
            'technique': c['technique'],
        })
    else:
        m['not_applicable'].append({'property_id': pid, 'reason': NOT_YET})
json.dump(m, open(os.path.join(V, 'MANIFEST.json'), 'w'), indent=1)
print('claimed', len(m['checks']), 'not_applicable', len(m['not_applicable']))
