#!/usr/bin/env python3
"""Turns sweep outputs (tools/sweep_mutants.sh) into seeded/detection.json, the
detected_by field of each seeded/<id>/meta.json, and a markdown table.
usage: detection_table.py <sweep.out> [...]   (output of tools/sweep_seeded.sh)"""
import json, os, re, sys
rows = {}
for f in sys.argv[1:]:
    for l in open(f, errors='replace'):
        m = re.match(r'^(C\d\d)-((?:r2)?m\d): exit=(\d+) (.*)', l)
        if not m:
            continue
        pid, mn, rc, rest = m.groups()
        what = re.split(r'replay=\S+', rest)[-1].strip() if 'VIOLATION' in rest else rest.strip()
        rows['%s-%s' % (pid, mn)] = {'exit': int(rc), 'summary': re.sub(r'\s+', ' ', what)[:400],
                                            'violations': int((re.search(r'violations=(\d+)', rest) or [0, 0])[1])}
det_path = '/verif/seeded/detection.json'
det = json.load(open(det_path)) if os.path.exists(det_path) else {}
det.update(rows)
json.dump(det, open(det_path, 'w'), indent=1, sort_keys=True)
for key in sorted(rows):
    d = '/verif/seeded/' + key
    title = ''
    if os.path.exists(d + '/notes.md'):
        title = open(d + '/notes.md').readline().strip('# \n')
        m2 = re.search(r'\s(—|--|-)\s', title)
        if m2:
            title = title[m2.end():]
    mp = d + '/meta.json'
    if os.path.exists(mp):
        meta = json.load(open(mp))
        meta['detected_by'] = {'check': key[:3], 'tier': 'quick', 'exit': rows[key]['exit'], 'first_report': rows[key]['summary']}
        json.dump(meta, open(mp, 'w'), indent=1)
    r = rows[key]
    short = r['summary']
    short = re.sub(r' on r?trace_\S+\.ndjson', '', short)
    short = re.sub(r'; pre-world.*', '', short)
    print('| %s | %s | %s |' % (key, title[:140].replace('|', '/'), ('exit %d: ' % r['exit']) + short[:130].replace('|', '/')))
