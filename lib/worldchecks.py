"""Checks decided by spec/World.tla: C01 C02 C03 C13 C14 C15 C16 C17 C18."""
import json, os, concurrent.futures as cf
import core, worldeng as we

# per property: model-checking families with constants per tier
#   (family, (MaxTok, MaxLen, MaxLit) quick, (..) thorough)
# codecs for edge replay per tier, random-history families and sizes per tier
CONF = {
    'C01': dict(
        mc=[('list', (2, 2, 2), (2, 3, 2))],
        edge_codecs=(['int'], ['int', 'string', 'float64', 'any', 'slice']),
        rand=[('list', ['int', 'string', 'float64', 'any', 'slice'])],
        rand_size=((30, 80, 10), (300, 150, 40)),      # (histories per codec, steps, maxlen)
        title='List and Array as an ordinal-indexed sequence'),
}


def run(ctx):
    conf = CONF[ctx.prop]
    ti = 0 if ctx.quick else 1
    ctx.build_harness()
    traces = []
    scripts_by_file = {}
    cov = {'families': {}, 'edges_replayed': 0, 'states': 0, 'transitions': 0}
    samples = []
    # (A) edges
    for fam, cq, ct in conf['mc']:
        mt, ml, mlit = (cq, ct)[ti]
        edges, stats = we.gen_edges(ctx, fam, mt, ml, mlit, workers=min(8, core.NCPU))
        scripts, unreachable = we.make_scripts(edges, ctx.seed)
        if unreachable:
            ctx.notes.append('%d edges of family %s have a pre-state not reachable over deterministic edges' % (unreachable, fam))
        cov['families'][fam] = {'MaxTok': mt, 'MaxLen': ml, 'MaxLit': mlit, 'edges': len(edges),
                                'distinct_states': stats['distinct'], 'generated': stats['generated'],
                                'scripts': len(scripts)}
        cov['states'] += stats['distinct']
        cov['transitions'] += len(edges)
        samples.append({'edge_script': scripts[len(scripts) // 2]['steps']})
        byid = {s['id']: s for s in scripts}
        with cf.ThreadPoolExecutor(max_workers=core.NCPU) as ex:
            futs = {c: ex.submit(we.run_scripts, ctx, c, scripts, fam) for c in conf['edge_codecs'][ti]}
            for c, f in futs.items():
                tf = f.result()
                traces.append(tf)
                scripts_by_file[os.path.basename(tf)] = byid
                cov['edges_replayed'] += len(scripts)
    # (B) random histories
    nh, steps, maxlen = conf['rand_size'][ti]
    nrand = 0
    with cf.ThreadPoolExecutor(max_workers=core.NCPU) as ex:
        futs = []
        for fam, codecs in conf['rand']:
            for c in codecs:
                futs.append(ex.submit(we.run_random, ctx, c, fam, nh, steps, maxlen, 'r'))
                nrand += nh
        for f in futs:
            traces.append(f.result())
    total, rejects = we.validate(ctx, traces)

    def codec_of(fname):
        return fname.rsplit('_', 1)[1].split('.')[0]
    for rej in rejects:
        byid = scripts_by_file.get(rej['file'])
        we.judge(ctx, [rej], codec_of, byid)
    if traces:
        with open(traces[-1]) as f:
            ls = f.readlines()
            samples.append({'trace_lines': [json.loads(l) for l in ls[1:4]]})
    cov.update({
        'traces_validated_against_impl': cov['edges_replayed'] + nrand,
        'trace_lines_validated': total,
        'random_histories': nrand,
        'rejected_lines': len(rejects),
        'samples': samples,
        'exhaustive': True,
        'rule': 'every edge of the TLC state graph of MCWorld for the listed constants is replayed on the real '
                'library at the end of a real history leading to its pre-state; plus seeded random histories; '
                'every recorded call line is validated by TLC against World.tla',
    })
    assumptions = ['projection through the public API (AsArray, iterators, GetValue, GetSize, IsEmpty) is the abstract state',
                   'element codecs are strictly monotone w.r.t. the default collator',
                   'exhaustive only for the stated constants; larger sizes by seeded random histories']
    return 'model_checking', cov, assumptions
