"""Checks decided by spec/World.tla: C01 C02 C03 C13 C14 C15 C16 C17 C18."""
import json, os, concurrent.futures as cf
import core, worldeng as we

# per property: model-checking families with constants per tier
#   (family, (MaxTok, MaxLen, MaxLit) quick, (..) thorough)
# codecs for edge replay per tier, random-history families and sizes per tier
ALLC = ['int', 'string', 'float64', 'any', 'slice']
ALLS = ALLC + ['set']
KEYC = ['int', 'string', 'float64', 'rune', 'any', 'ptr']
CONF = {
    'C01': dict(
        mc=[('list', (2, 2, 2, 1), (2, 3, 3, 1))],
        edge_codecs=(['int'], ALLC),
        rand=[('list', ALLC)],
        rand_size=((30, 80, 10), (300, 150, 40))),      # (histories per codec, steps, maxlen)
    'C02': dict(
        mc=[('set', (3, 3, 2, 1), (5, 5, 2, 1)), ('set2', (2, 3, 0, 1), (3, 4, 0, 1))],
        edge_codecs=(['int', 'slice'], ALLS),
        rand=[('set', ALLS)],
        rand_size=((30, 80, 12), (300, 150, 40))),
    'C03': dict(
        mc=[('catalog', (2, 3, 2, 1), (3, 4, 2, 1)), ('keysC', (2, 3, 3, 1), (3, 3, 3, 1))],
        edge_codecs=(['int', 'ptr'], KEYC),
        rand=[('catalog', KEYC)],
        rand_size=((30, 80, 8), (300, 150, 12))),
    'C13': dict(
        mc=[('stack', (1, 3, 2, 1), (2, 4, 2, 1))],
        edge_codecs=(['int'], ['int', 'string', 'any']),
        rand=[('stack', ['int', 'string', 'any'])],
        rand_size=((30, 80, 20), (300, 150, 40))),
    'C14': dict(
        mc=[('map', (2, 3, 2, 1), (3, 4, 3, 1)), ('keysM', (2, 3, 3, 1), (3, 3, 3, 1))],
        edge_codecs=(['int', 'string'], ['int', 'string', 'rune', 'any']),
        rand=[('map', ['int', 'string', 'rune', 'any'])],
        rand_size=((30, 80, 8), (300, 150, 12))),
    'C15': dict(
        mc=[('algebra', (3, 4, 0, 1), (5, 6, 0, 1))],
        edge_codecs=(['int', 'string', 'set'], ['int', 'string', 'slice', 'any', 'set']),      # 'set': sets of sets
        rand=[('set', ['int', 'string', 'slice', 'any', 'set'])],
        rand_size=((20, 80, 12), (200, 150, 40))),
    'C16': dict(
        mc=[('merge', (2, 3, 0, 1), (3, 4, 0, 1)), ('catalogfn', (2, 2, 2, 1), (3, 3, 3, 1)), ('concat', (2, 2, 2, 1), (2, 3, 2, 1)),
            ('extract', (2, 2, 2, 2), (2, 3, 2, 2))],
        edge_codecs=(['int', 'ptr'], ['int', 'string', 'any', 'ptr']),
        rand=[('catalog', ['int', 'string', 'ptr'])],
        rand_size=((20, 80, 8), (200, 150, 12))),
    'C17': dict(
        mc=[('iter', (2, 3, 0, 1), (2, 4, 0, 1)), ('iterK', (2, 3, 0, 1), (2, 3, 0, 2))],
        edge_codecs=(['int', 'string'], ALLC),
        rand=[('list', ['int']), ('catalog', ['int']), ('stack', ['int']), ('set', ['int']), ('map', ['int']), ('queue', ['int'])],
        rand_size=((10, 80, 10), (100, 150, 20))),
    'C18': dict(
        mc=[('alias', (2, 3, 0, 1), (2, 3, 0, 2)), ('aliasA', (2, 3, 0, 1), (2, 3, 0, 2))],
        edge_codecs=(['int', 'string'], ['int', 'string', 'any']),
        rand=[('list', ['int']), ('set', ['int']), ('catalog', ['int']), ('map', ['int']), ('stack', ['int']), ('queue', ['int'])],
        rand_size=((10, 80, 10), (100, 150, 20))),
}


ALG = {('Set', m) for m in ('And', 'Or', 'Sans', 'Xor')}
CATFN = {('Catalog', 'Merge'), ('Catalog', 'Extract')}
CONC = {('List', 'Concatenate')}


def tainted(rej, ops):
    x = rej['line']
    if (x['k'], x['m']) in ops:
        return True
    if any(h.get('t') == 'call' and (h['k'], h['m']) in ops for h in rej['history']):
        return True
    # the unlogged part of an edge script (the real history that led to the pre-state)
    return any((st['k'], st['m']) in ops for st in rej.get('steps', ()))


def frame_changed(rej):
    """ids of objects other than the receiver that differ between the pre- and
    the post-world of the rejected call (aliasing shows up here)"""
    x = rej['line']
    pre, post = rej['pre'], x['w']
    return [i + 1 for i in range(min(len(pre), len(post))) if i + 1 != x['self'] and pre[i] != post[i]]


def in_scope(prop, rej):
    """Does this rejected call concern this property?  (Every rejected call is
    a real defect of the library; it is reported by the check of the property
    it belongs to, the others mention it as OUT-OF-SCOPE.)"""
    x = rej['line']
    if rej.get('textview'):
        return prop == 'C10'
    if prop == 'C02':
        return not tainted(rej, ALG)
    if prop == 'C15':
        return tainted(rej, ALG)
    if prop == 'C03':
        return not tainted(rej, CATFN)
    if prop == 'C16':
        return tainted(rej, CATFN | CONC)
    if prop == 'C17':
        kinds = lambda w: [o.get('kind') for o in w]
        changed = frame_changed(rej)
        # also: an object whose iterator disagrees with its other views after the call
        iterview = any(isinstance(o, dict) and 'iterat' in str(o.get('incoherent', '')) for o in x['w'])
        return x['k'] == 'Iter' or x['m'] == 'GetIterator' or iterview or any(rej['pre'][i - 1].get('kind') == 'Iter' for i in changed)
    if prop == 'C18':
        selfop = x['self'] != 0 and x['self'] in [a for a in x['args'] if isinstance(a, int)] and x['m'] in (
            'SetValues', 'InsertValues', 'AppendValues', 'AddValues', 'RemoveValues', 'ContainsAny', 'ContainsAll')
        return bool(frame_changed(rej)) or x['k'] in ('GoArray', 'GoMap') or selfop
    return True


SORTM = {'SortValues', 'SortValuesWithRanker', 'ReverseValues', 'ShuffleValues'}


def run_pairs(ctx, families, codecs, text_only=False):
    """World part of a check decided elsewhere (C09): every pair of consecutive
    edges of the given families replayed and validated; rejections whose script
    involves a Sortable method are violations of ctx.prop"""
    traces, scripts_by_file = [], {}
    cov = {'families': {}, 'pair_scripts': 0}
    for fam, consts in families:
        edges, stats = we.gen_edges(ctx, fam, *consts, workers=min(8, core.NCPU))
        scripts, _ = we.make_scripts(edges, ctx.seed, pairs=True)
        byid = {s['id']: s for s in scripts}
        cov['families'][fam] = {'constants': list(consts), 'edges': len(edges), 'distinct_states': stats['distinct'], 'scripts': len(scripts)}
        cov['pair_scripts'] += len(scripts) - 2 * len(edges)
        with cf.ThreadPoolExecutor(max_workers=core.NCPU) as ex:
            futs = {c: ex.submit(we.run_scripts, ctx, c, scripts, fam) for c in codecs}
            for c, f in futs.items():
                tf = f.result()
                traces.append(tf)
                scripts_by_file[os.path.basename(tf)] = byid
    total, rejects = we.validate(ctx, traces)
    cov['trace_lines_validated'] = total
    cov['rejected_lines'] = len(rejects)
    oos = 0
    for rej in rejects:
        byid = scripts_by_file.get(rej['file'], {})
        sc = byid.get(rej['line'].get('sid'))
        steps = sc['steps'] if sc else []
        if text_only and not rej.get('textview'):
            continue                 # reported by the check of the property it belongs to
        if rej.get('textview') and not text_only:
            continue                 # a matter of C10
        if text_only or rej['line']['m'] in SORTM or any(st['m'] in SORTM for st in steps):
            we.judge(ctx, [rej], lambda fname: fname.rsplit('_', 1)[1].split('.')[0], byid)
        else:
            oos += 1
            if oos <= 3:
                x = rej['line']
                print("OUT-OF-SCOPE: %s.%s%s rejected by World.tla; not a matter of %s" % (x['k'], x['m'], x['args'], ctx.prop))
    cov['rejected_out_of_scope'] = oos
    return cov


def run(ctx):
    conf = CONF[ctx.prop]
    ti = 0 if ctx.quick else 1
    ctx.build_harness()
    traces = []
    scripts_by_file = {}
    cov = {'families': {}, 'edges_replayed': 0, 'states': 0, 'transitions': 0}
    samples = []
    # (A) edges
    for fam, cq, ct in conf['mc']:
        mt, ml, mlit, mfuel = (cq, ct)[ti]
        edges, stats = we.gen_edges(ctx, fam, mt, ml, mlit, mfuel, workers=min(8, core.NCPU))
        scripts, unreachable = we.make_scripts(edges, ctx.seed)
        if unreachable:
            ctx.notes.append('%d edges of family %s have a pre-state not reachable over deterministic edges' % (unreachable, fam))
        cov['families'][fam] = {'MaxTok': mt, 'MaxLen': ml, 'MaxLit': mlit, 'MaxFuel': mfuel, 'edges': len(edges),
                                'distinct_states': stats['distinct'], 'generated': stats['generated'],
                                'scripts': len(scripts)}
        cov['states'] += stats['distinct']
        cov['transitions'] += len(edges)
        samples.append({'edge_script': scripts[len(scripts) // 2]['steps']})
        byid = {s['id']: s for s in scripts}
        with cf.ThreadPoolExecutor(max_workers=core.NCPU) as ex:
            futs = {c: ex.submit(we.run_scripts, ctx, c, scripts, fam) for c in conf['edge_codecs'][ti]}
            for c, f in futs.items():
                tf = f.result()
                traces.append(tf)
                scripts_by_file[os.path.basename(tf)] = byid
                cov['edges_replayed'] += len(scripts)
                cov['scripts_ending_in_their_pre_state'] = cov.get('scripts_ending_in_their_pre_state', 0) + we.realised(tf, scripts)
    # (B) random histories
    nh, steps, maxlen = conf['rand_size'][ti]
    nrand = 0
    with cf.ThreadPoolExecutor(max_workers=core.NCPU) as ex:
        futs = []
        for fam, codecs in conf['rand']:
            for c in codecs:
                futs.append(ex.submit(we.run_random, ctx, c, fam, nh, steps, maxlen, 'r'))
                nrand += nh
        for f in futs:
            traces.append(f.result())
    total, rejects = we.validate(ctx, traces)

    def codec_of(fname):
        return fname.rsplit('_', 1)[1].split('.')[0]
    out_of_scope = 0
    for rej in rejects:
        sc = (scripts_by_file.get(rej['file']) or {}).get(rej['line'].get('sid'))
        rej['steps'] = sc['steps'] if sc else []
        if not in_scope(ctx.prop, rej):
            out_of_scope += 1
            if out_of_scope <= 3:
                x = rej['line']
                print('OUT-OF-SCOPE: %s.%s%s rejected by World.tla; not a matter of %s (reported by its own property\'s check)' % (
                    x['k'], x['m'], x['args'], ctx.prop))
            continue
        byid = scripts_by_file.get(rej['file'])
        we.judge(ctx, [rej], codec_of, byid)
    if traces:
        with open(traces[-1]) as f:
            ls = f.readlines()
            samples.append({'trace_lines': [json.loads(l) for l in ls[1:4]]})
    cov.update({
        'traces_validated_against_impl': cov['edges_replayed'] + nrand,
        'trace_lines_validated': total,
        'random_histories': nrand,
        'rejected_lines': len(rejects),
        'rejected_out_of_scope': out_of_scope,
        'samples': samples,
        'exhaustive': True,
        'rule': 'every edge of the TLC state graph of MCWorld for the listed constants is replayed on the real '
                'library at the end of a real history leading to its pre-state; plus seeded random histories; '
                'every recorded call line is validated by TLC against World.tla',
    })
    assumptions = ['projection through the public API (AsArray, iterators, GetValue, GetSize, IsEmpty) is the abstract state',
                   'element codecs are strictly monotone w.r.t. the default collator',
                   'exhaustive only for the stated constants; larger sizes by seeded random histories']
    return 'model_checking', cov, assumptions
