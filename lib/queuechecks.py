"""C04 (linearizable bounded FIFO) and C05 (no lost wake-up, constructors
return): QueueImpl.tla model checking + forced schedule replay + free-running
stress, all real histories judged by QueueLin.tla."""
import json, os, subprocess, glob
import core, queueeng as qe, worldeng as we
from core import Infra


def A(v): return {'op': 'add', 'v': v}
REM = {'op': 'rem', 'v': 0}
CLOSE = {'op': 'close', 'v': 0}
CLEAR = {'op': 'clear', 'v': 0}
SIZE = {'op': 'size', 'v': 0}
EMPTY = {'op': 'empty', 'v': 0}
ARRAY = {'op': 'array', 'v': 0}


def P(cap, procs, after=None):
    return {'cap': cap, 'procs': procs, 'after': after or {}}


# well-formed programs: producers finish -> close -> consumers read until ok=false
PROGRAMS = {
    'w1': P(1, {'p1': [A(11), A(12)], 'c1': [REM, REM, REM], 'x': [CLOSE]}, {'x': ['p1']}),
    'w2': P(1, {'p1': [A(11)], 'p2': [A(21)], 'c1': [REM, REM], 'c2': [REM, REM], 'x': [CLOSE]}, {'x': ['p1', 'p2']}),
    'w3': P(2, {'p1': [A(11), A(12), A(13)], 'c1': [REM, REM, REM, REM], 's': [SIZE, ARRAY, EMPTY], 'x': [CLOSE]}, {'x': ['p1']}),
    'w4': P(1, {'p1': [A(11), A(12)], 'p2': [A(21)], 'c1': [REM, REM], 'c2': [REM, REM, REM], 'x': [CLOSE], 's': [SIZE, ARRAY]},
            {'x': ['p1', 'p2']}),
    'w5': P(2, {'p1': [A(11), A(12)], 'p2': [A(21), A(22)], 'c1': [REM, REM, REM], 'c2': [REM, REM, REM], 'x': [CLOSE]},
            {'x': ['p1', 'p2']}),
    'w6': P(3, {'p1': [A(11), A(12), A(13)], 'p2': [A(21)], 'p3': [A(31)], 'c1': [REM] * 6, 'x': [CLOSE], 's': [SIZE, EMPTY]},
            {'x': ['p1', 'p2', 'p3']}),
    # full queue, no consumer until the producers are done filling: back-pressure
    'b1': P(1, {'p1': [A(11), A(12)], 'p2': [A(21)], 's': [SIZE, SIZE], 'c1': [REM, REM, REM]}, {}),
    'b2': P(2, {'p1': [A(11), A(12), A(13)], 's': [SIZE, ARRAY], 'c1': [REM, REM, REM]}, {'c1': ['s']}),
    # RemoveAll callers (the family of the property includes them)
    'r1': P(1, {'p1': [A(11)], 'c1': [REM], 'r': [CLEAR]}),
    'r2': P(1, {'c1': [REM], 'r': [CLEAR], 'p1': [A(11)], 'x': [CLOSE]}, {'p1': ['r'], 'x': ['p1']}),
    'r3': P(2, {'p1': [A(11), A(12)], 'r': [CLEAR], 's': [SIZE, ARRAY]}, {}),
    # RemoveAll finishes before anything else starts: no overlap, the queue must behave like a new one of the same capacity
    'r4': P(1, {'r': [CLEAR], 'p1': [A(11), A(12)], 'c1': [REM, REM], 's': [SIZE, SIZE]}, {'p1': ['r'], 'c1': ['r'], 's': ['r']}),
    'r5': P(2, {'p0': [A(5), A(6)], 'r': [CLEAR], 'p1': [A(11), A(12), A(13)], 'c1': [REM, REM, REM], 's': [SIZE, ARRAY]},
            {'r': ['p0'], 'p1': ['r'], 'c1': ['r'], 's': ['r']}),
    # a queue used for a second round: closed, emptied by RemoveAll (which the code re-opens), filled and closed again
    'r6': P(1, {'m': [A(11), CLOSE, CLEAR, A(12), CLOSE], 'c1': [REM, REM], 'c2': [REM]}, {'c1': ['m'], 'c2': ['m']}),
}


def _generated():
    """the family of the property, enumerated: 1-3 producers adding 1-3 distinct values,
    1-3 consumers, capacity 1-3, optional closer, optional observer, optional RemoveAll
    caller; kept to at most 9 calls in at most 5 processes (state spaces of 10^3..10^5); a deterministic spread of
    them is model-checked and replayed in the thorough tier"""
    import itertools, random
    out = []
    for cap, np_, nc, closer, obs, clr in itertools.product((1, 2, 3), (1, 2, 3), (1, 2, 3), (True, False), (False, True), (False, True)):
        for per in itertools.product((1, 2, 3), repeat=np_):
            if list(per) != sorted(per, reverse=True):
                continue                      # producers are interchangeable
            total = sum(per)
            rems = total + (nc if closer else 0)
            calls = total + rems + (1 if closer else 0) + (2 if obs else 0) + (1 if clr else 0)
            if calls > 9 or np_ + nc + closer + obs + clr > 5 or total < nc and not closer:
                continue
            procs, after = {}, {}
            for i, k in enumerate(per):
                procs['p%d' % (i + 1)] = [A(10 * (i + 1) + j + 1) for j in range(k)]
            share = [rems // nc + (1 if j < rems % nc else 0) for j in range(nc)]
            for j, r in enumerate(share):
                procs['c%d' % (j + 1)] = [REM] * r
            if closer:
                procs['x'] = [CLOSE]
                after['x'] = ['p%d' % (i + 1) for i in range(np_)]
            if obs:
                procs['s'] = [SIZE, ARRAY]
            if clr:
                procs['r'] = [CLEAR]
            out.append(P(cap, procs, after))
    random.Random(20241).shuffle(out)
    return out


GENERATED = _generated()
for _i, _p in enumerate(GENERATED[:12]):
    PROGRAMS['g%02d' % (_i + 1)] = _p
QUICK = ['w1', 'w2', 'w3', 'b1', 'r1', 'r2', 'r3', 'r4', 'r5', 'r6']
THOROUGH = ['w1', 'w2', 'w3', 'w4', 'w5', 'w6', 'b1', 'b2', 'r1', 'r2', 'r3', 'r4', 'r5', 'r6'] + ['g%02d' % (i + 1) for i in range(12)]


def run_programs(ctx, names, max_schedules):
    """model-check each program, replay an edge cover, return per-program results"""
    import concurrent.futures as cf

    def mc(name):
        return name, qe.model_check(ctx, name, PROGRAMS[name], workers=4)
    mcs = {}
    with cf.ThreadPoolExecutor(max_workers=max(1, core.NCPU // 4)) as ex:
        for name, r in ex.map(mc, names):
            mcs[name] = r
    out = {}
    for name in names:
        prog = PROGRAMS[name]
        qe._PROG_LEN = {p: len(c) for p, c in prog['procs'].items()}
        cap = min(max_schedules, 600) if name.startswith('g') else max_schedules     # the enumerated family: a sample of its behaviours
        scheds, uncovered = qe.schedules_from_edges(mcs[name]['edges'], ctx.seed, max_schedules=cap)
        res = qe.replay(ctx, name, prog, scheds)
        out[name] = {'prog': prog, 'mc': mcs[name], 'scheds': scheds, 'uncovered': uncovered, 'results': res}
    return out


def stress(ctx, n, race):
    vh = ctx.build_harness(race=True) if race else ctx.vh
    out = ctx.path('stress_%s.ndjson' % ('race' if race else 'plain'))
    env = dict(os.environ)
    logp = ctx.path('racelog')
    if race:
        env['GORACE'] = 'log_path=%s halt_on_error=0 exitcode=0' % logp
    r = subprocess.run([vh, 'queue-stress', '-n', str(n), '-seed', str(ctx.seed), '-out', out], env=env,
                       capture_output=True, text=True, timeout=3000)
    if r.returncode != 0:
        raise Infra('queue-stress failed: %s %s' % (r.stdout[-1000:], r.stderr[-1000:]))
    runs = [json.loads(l) for l in open(out)]
    races = []
    if race:
        for f in glob.glob(logp + '*'):
            txt = open(f).read()
            if 'DATA RACE' in txt:
                races.append(txt[:3000])
    return runs, races


def free_programs(ctx, names, reps):
    """the same client programs, free-running (no forced schedule): these runs have
    real ends, so calls left waiting are judged (the end of a forced schedule that the
    code did not follow is not)"""
    pf, out = ctx.path('programs.json'), ctx.path('free_programs.ndjson')
    with open(pf, 'w') as f:
        json.dump([{'name': n, 'cap': PROGRAMS[n]['cap'], 'procs': PROGRAMS[n]['procs'], 'after': PROGRAMS[n]['after']} for n in names], f)
    r = subprocess.run([ctx.vh, 'queue-programs', '-progs', pf, '-n', str(reps), '-seed', str(ctx.seed), '-out', out],
                       capture_output=True, text=True, timeout=3000)
    if r.returncode != 0:
        raise Infra('queue-programs failed: %s %s' % (r.stdout[-1000:], r.stderr[-1000:]))
    return [json.loads(l) for l in open(out)]


def clear_overlaps(hist):
    """does some RemoveAll overlap (in real time) an AddValue / RemoveHead in this history?"""
    ivs, pend = [], {}
    for n, e in enumerate(hist):
        if e['e'] == 'inv':
            pend[e['p']] = (n, e.get('op'))
        elif e['p'] in pend:
            a, op = pend.pop(e['p'])
            ivs.append((a, n, op))
    for p, (a, op) in pend.items():
        ivs.append((a, len(hist) + 1, op))
    clears = [iv for iv in ivs if iv[2] == 'clear']
    others = [iv for iv in ivs if iv[2] in ('add', 'rem')]
    return any(c[0] < o[1] and o[0] < c[1] for c in clears for o in others)


def judge_common(ctx, prop, progres, stress_runs, races, free_runs=()):
    """prop: 'C04' judges linearizability / panics / races; 'C05' judges
    blocked goroutines and termination."""
    cov = {'client_programs': {}, 'schedules_replayed': 0, 'drift': 0, 'states': 0, 'transitions': 0}
    items = []
    meta = {}
    for name, pr in progres.items():
        prog = pr['prog']
        hc = qe.has_clear(prog)
        st = {'ok': 0, 'drift': 0, 'stuck': 0, 'skipped': 0}
        for i, r in enumerate(pr['results']):
            st[r['status']] = st.get(r['status'], 0) + 1
            key = ('sched', name, i)
            meta[key] = (prog, pr['scheds'][i], r)
            if r['status'] == 'drift':
                ctx.drift.append('program %s schedule %d: %s' % (name, i, r['detail'][:200]))
            # a stuck end state is judged on its history (below): a call that never
            # returned must be one the queue's state does not permit to proceed
            if r['history']:
                # a schedule the real code did not follow was abandoned by the harness: its
                # history is a real prefix, but the calls left pending say nothing
                items.append((key, prog['cap'], r['history'], r['status'] != 'drift'))
        cov['client_programs'][name] = {'distinct_states': pr['mc']['stats'].get('distinct'), 'edges': len(pr['mc']['edges']),
                                 'model_violations': sorted(pr['mc']['violated']), 'schedules': len(pr['scheds']),
                                 'edges_not_covered': pr['uncovered'], 'replay': st}
        cov['schedules_replayed'] += len(pr['scheds'])
        cov['drift'] += st['drift']
        cov['states'] += pr['mc']['stats'].get('distinct', 0)
        cov['transitions'] += len(pr['mc']['edges'])
        # a violated model property on a program without RemoveAll must show on the real code
        if not hc and pr['mc']['violated'] and not ctx.violations:
            ctx.drift.append('program %s: the model violates %s; see the replays of those behaviours' % (
                name, sorted(pr['mc']['violated'])))
    for run in stress_runs:
        key = ('stress', run['id'])
        meta[key] = (None, None, run)
        if prop == 'C05':
            if not run['done']:
                ctx.violation('free-running well-formed program (cap %d, %d producers, %d consumers) did not terminate: blocked %s' % (
                    run['cap'], run['producers'], run['consumers'], run['blocked']),
                    {'engine': 'queue', 'kind': 'nonterminating', 'observed': {k: run[k] for k in run if k != 'history'},
                     'history': run['history'][-60:], 'signature': {'engine': 'queue', 'kind': 'nonterminating', 'has_clear': False}})
            elif run['lost']:
                ctx.violation('values %s were added but never delivered' % run['lost'][:10],
                              {'engine': 'queue', 'kind': 'lost', 'observed': {k: run[k] for k in run if k != 'history'},
                               'signature': {'engine': 'queue', 'kind': 'lost', 'has_clear': False}})
        items.append((key, run['cap'], run['history'], True))
    for x in free_runs:
        key = ('free', x['prog'], x['run']['id'])
        meta[key] = (PROGRAMS[x['prog']], None, x['run'])
        items.append((key, x['run']['cap'], x['run']['history'], True))
    rejected = []
    if prop == 'C05':
        # histories that did not run to completion: are the calls left behind rightly blocked?
        stuck_items = [it for it in items if not qe.complete(it[2]) and it[3]]
        byprog = lambda it: (it[0][0], it[0][1] if it[0][0] != 'stress' else '')
        for key, off in qe.validate_histories(ctx, stuck_items, 's', group=byprog):
            prog, sched, r = meta[key]
            hist = r['history']
            if off < len(hist):
                continue       # the history is wrong before its end: a matter of C04
            hc = bool(prog) and qe.has_clear(prog)
            left = sorted({e['p'] for e in hist if e['e'] == 'inv'} - set())
            what = 'calls never returned although the queue permits them to proceed (a value is available or the queue is closed): %s' % (
                json.dumps([[e['e'], e['p'], e.get('op', ''), e.get('v', 0), e.get('r')] for e in hist[-10:]]))
            ctx.violation(what, {'engine': 'queue', 'kind': 'stuck', 'program': prog, 'schedule': sched, 'history': hist,
                                 'signature': {'engine': 'queue', 'kind': 'stuck', 'has_clear': hc,
                                               'clear_overlaps': clear_overlaps(hist)}})
    if prop == 'C04':
        # every history, also those that did not run to completion: a history that is
        # wrong before its end (a panic, a wrong result) is a matter of C04; one that is
        # only rejected at its end (calls left waiting) is a matter of C05
        byprog = lambda it: (it[0][0], it[0][1] if it[0][0] != 'stress' else '')
        rejected = qe.validate_histories(ctx, items, 'h', group=byprog)
        for key, off in rejected:
            prog, sched, r = meta[key]
            hist = r['history']
            if not qe.complete(hist) and off >= len(hist):
                continue
            pan = any(isinstance(e.get('r'), dict) and e['r'].get('t') == 'panic' for e in hist)
            hc = bool(prog) and qe.has_clear(prog)
            what = 'history not linearizable as a bounded FIFO (deepest event explained: %d of %d)%s: %s' % (
                off, len(hist), '; a valid call panicked' if pan else '',
                json.dumps([[e['e'], e['p'], e.get('op', ''), e.get('v', 0), e.get('r')] for e in hist[max(0, off - 6):off + 3]]))
            ctx.violation(what, {'engine': 'queue', 'kind': 'lin-reject', 'program': prog, 'schedule': sched,
                                 'history': hist, 'first_unexplained': off,
                                 'signature': {'engine': 'queue', 'kind': 'lin-reject', 'has_clear': hc,
                                               'clear_overlaps': clear_overlaps(hist)}})
        for txt in races[:3]:
            ctx.violation('data race reported by the Go race detector in a free-running run:\n' + txt[:1200],
                          {'engine': 'queue', 'kind': 'race', 'report': txt,
                           'signature': {'engine': 'queue', 'kind': 'race', 'has_clear': False}})
    cov['histories_validated'] = len(items) if prop == 'C04' else 0
    cov['histories_rejected'] = len(rejected)
    cov['stress_runs'] = len(stress_runs)
    cov['free_program_runs'] = len(free_runs)
    cov['race_reports'] = len(races)
    return cov, items


def check(ctx, prop):
    import time
    t0 = time.time()
    ctx.build_harness()
    names = QUICK if ctx.quick else THOROUGH
    progres = run_programs(ctx, names, 800 if ctx.quick else 12000)      # schedules per program at most
    ctx.notes.append('phase programs+replay %.1fs' % (time.time() - t0)); t0 = time.time()
    runs, races = stress(ctx, 150 if ctx.quick else 1500, race=False)
    ctx.notes.append('phase stress %.1fs' % (time.time() - t0)); t0 = time.time()
    if prop == 'C04' or not ctx.quick:
        r2, races = stress(ctx, 60 if ctx.quick else 600, race=True)
        for r in r2:
            r['id'] += 100000
        runs += r2
    ctx.notes.append('phase race stress %.1fs' % (time.time() - t0)); t0 = time.time()
    free = free_programs(ctx, names, 25 if ctx.quick else 200)
    cov, items = judge_common(ctx, prop, progres, runs, races, free)
    ctx.notes.append('phase judge %.1fs' % (time.time() - t0))
    return cov, items


def finish_cov(cov, items, extra_rule=''):
    sample = None
    for key, cap, events in [it[:3] for it in items]:
        if events:
            sample = {'cap': cap, 'history': [[e['e'], e['p'], e.get('op', ''), e.get('v', 0), e.get('r')] for e in events[:14]]}
            break
    cov['traces_validated_against_impl'] = cov['schedules_replayed'] + cov['stress_runs']
    cov['samples'] = [sample]
    cov['exhaustive'] = all(p['edges_not_covered'] == 0 for p in cov['client_programs'].values())
    cov['rule'] = ('TLC explores every interleaving of each client program on QueueImpl.tla; an edge-covering set of its behaviours '
                   'is forced onto real goroutines through the verif hooks, the real state is compared after every step, and every '
                   'recorded invoke/return history (forced and free-running) is judged by TLC against QueueLin.tla' + extra_rule)
    return cov


ASSUME = ['hook points are the only scheduling points that matter: critical sections of queue.go contain no scheduling point',
          'the Go runtime implements channels as modelled in QueueImpl.tla (FIFO parked senders/receivers, hand-off, close broadcast)',
          'data races are observed by the Go race detector on free-running runs only (a TLA+ model has no memory model)',
          'exhaustive for the listed small client programs only']


def run_c04(ctx):
    cov, items = check(ctx, 'C04')
    return 'model_checking', finish_cov(cov, items), ASSUME


def run_c05(ctx):
    cov, items = check(ctx, 'C05')
    # constructors: the class-level constructors with 0..33 initial values (quiescent world model)
    edges, stats = we.gen_edges(ctx, 'queueseq', 1, 2, 1, 1, workers=min(8, core.NCPU))
    scripts, _ = we.make_scripts(edges, ctx.seed, varied=not ctx.quick)
    ctors = [s for s in scripts if s['steps'][-1]['k'] == 'Queue']
    tf = we.run_scripts(ctx, 'int', ctors, 'queueseq')
    total, rejects = we.validate(ctx, [tf])
    byid = {s['id']: s for s in scripts}
    for rej in rejects:
        x = rej['line']
        if x['k'] == 'Queue' and (x['m'].startswith('Make') or x['pc'] == 'timeout'):
            # a constructor that does not return / builds the wrong queue, or a call that
            # blocks although the quiescent queue permits it to proceed
            we.judge(ctx, [rej], lambda f: 'int', byid)
    cov['constructor_scripts'] = len(ctors)
    cov['constructor_lines_validated'] = total
    return 'model_checking', finish_cov(cov, items, '; constructors with 0..33 initial values are replayed from the World model'), ASSUME


# ---------------------------------------------------------------------------
# C06: Fork / Split / Join

PIPE_QUICK = [('fork', 2, 0, 1), ('fork', 2, 1, 1), ('fork', 2, 3, 1), ('split', 2, 1, 1), ('split', 2, 3, 1), ('split', 3, 2, 1),
              ('splitjoin', 2, 3, 1), ('splitjoin', 2, 0, 1), ('fork', 3, 2, 2)]
PIPE_THOROUGH = [(m, k, n, c) for m in ('fork', 'split', 'splitjoin') for k in (2, 3, 4) for n in range(0, 7) for c in (1, 2, 3)]


def run_c06(ctx):
    import concurrent.futures as cf
    ctx.build_harness()
    confs = PIPE_QUICK if ctx.quick else PIPE_THOROUGH
    cov = {'configs': {}, 'states': 0, 'transitions': 0, 'schedules_replayed': 0, 'drift': 0}
    records = []

    def mc(conf):
        mode, k, n, cap = conf
        stream = list(range(1, n + 1))
        return conf, qe.pipes_check(ctx, mode, k, stream, cap, workers=2)
    with cf.ThreadPoolExecutor(max_workers=max(1, core.NCPU // 2)) as ex:
        mcs = list(ex.map(mc, confs))
    for conf, r in mcs:
        mode, k, n, cap = conf
        stream = list(range(1, n + 1))
        scheds, unc = qe.pipes_schedules(r['edges'], ctx.seed, 800 if ctx.quick else 6000)
        res = qe.pipes_replay(ctx, mode, k, stream, cap, scheds)
        st = {}
        for sc, x in zip(scheds, res):
            st[x['status']] = st.get(x['status'], 0) + 1
            if x['status'] == 'drift':
                ctx.drift.append('%s k=%d n=%d cap=%d schedule %d: %s' % (mode, k, n, cap, x['id'], x['detail'][:200]))
            if x['status'] == 'ok' and sc['final'] == 'done':
                names = ['r'] if mode == 'splitjoin' else ['r%d' % (i + 1) for i in range(k)]
                records.append({'src': 'forced', 'mode': mode, 'k': k, 'cap': cap, 'stream': stream, 'done': True,
                                'readers': [{'got': x['got'].get(nm) or [], 'closed': bool(x['closed'].get(nm))} for nm in names],
                                'wg': x['wg'], 'wgspawn': x.get('wg_at_spawn') or [], 'schedule': sc})
        cov['configs']['%s/k%d/n%d/cap%d' % conf] = {'distinct_states': r['stats'].get('distinct'), 'edges': len(r['edges']),
                                                      'model_violations': r['violated'], 'schedules': len(scheds),
                                                      'edges_not_covered': unc, 'replay': st}
        cov['states'] += r['stats'].get('distinct', 0)
        cov['transitions'] += len(r['edges'])
        cov['schedules_replayed'] += len(scheds)
        cov['drift'] += st.get('drift', 0)
        if r['violated']:
            ctx.drift.append('Pipes model %s violates %s' % (conf, r['violated']))
    # free-running stress, plain and under the race detector
    races = []
    nstress = 0
    for race in (False, True):
        vh = ctx.build_harness(race=True) if race else ctx.vh
        out = ctx.path('pstress_%d.ndjson' % race)
        env = dict(os.environ)
        logp = ctx.path('prace')
        if race:
            env['GORACE'] = 'log_path=%s halt_on_error=0 exitcode=0' % logp
        n = (150, 40) if ctx.quick else (1500, 400)
        r = subprocess.run([vh, 'pipe-stress', '-n', str(n[race]), '-seed', str(ctx.seed), '-out', out], env=env,
                           capture_output=True, text=True, timeout=3000)
        if r.returncode != 0:
            raise Infra('pipe-stress failed: %s %s' % (r.stdout[-1000:], r.stderr[-1000:]))
        for l in open(out):
            x = json.loads(l)
            nstress += 1
            records.append({'src': 'stress', 'mode': x['mode'], 'k': x['k'], 'cap': x['cap'], 'stream': x['stream'],
                            'done': x['done'], 'readers': x['readers'], 'wg': x['wg'], 'wgspawn': x['wgspawn'] or [],
                            'blocked': x.get('blocked') or []})
        if race:
            for f in glob.glob(logp + '*'):
                txt = open(f).read()
                if 'DATA RACE' in txt:
                    races.append(txt[:3000])
    # property-level judgement by TLC
    tf = ctx.path('pipes_records.ndjson')
    with open(tf, 'w') as f:
        for x in records:
            f.write(json.dumps({k: x[k] for k in ('mode', 'k', 'stream', 'done', 'readers', 'wg', 'wgspawn')}) + '\n')
    code, out = ctx.tlc('TracePipes', 'SPECIFICATION Spec\nCHECK_DEADLOCK FALSE\n', env={'TRACE': tf}, workers=1, timeout=1200,
                        name='TP', heap='4g')
    import re
    m = re.search(r'<<\s*"BAD",\s*\{([^}]*)\}\s*>>', out, re.S)
    bad = [int(t) for t in m.group(1).split(',') if t.strip()] if m else None
    if bad is None or 'No error has been found' not in out:
        raise Infra('TracePipes failed:\n' + out[-2500:])
    for i in bad:
        x = records[i - 1]
        exp = 'round-robin lanes of' if x['mode'] == 'split' else 'the whole of'
        what = '%s k=%d cap=%d (%s run): readers received %s (closed %s), expected %s stream %s; done=%s wait group=%d, at spawn %s%s' % (
            x['mode'], x['k'], x['cap'], x['src'], json.dumps([r['got'][:12] for r in x['readers']]),
            [r['closed'] for r in x['readers']], exp, json.dumps(x['stream'][:12]), x['done'], x['wg'], x['wgspawn'],
            (' blocked: %s' % x['blocked']) if x.get('blocked') else '')
        ctx.violation(what, {'engine': 'pipes', 'record': {k: v for k, v in x.items()},
                             'signature': {'engine': 'pipes', 'mode': x['mode'], 'done': x['done']}})
    for txt in races[:3]:
        ctx.violation('data race reported by the Go race detector in a free-running pipeline:\n' + txt[:1200],
                      {'engine': 'pipes', 'kind': 'race', 'report': txt, 'signature': {'engine': 'pipes', 'kind': 'race'}})
    cov.update({'runs_judged': len(records), 'stress_runs': nstress, 'runs_rejected': len(bad), 'race_reports': len(races),
                'traces_validated_against_impl': len(records),
                'samples': [{k: records[0][k] for k in ('mode', 'k', 'cap', 'stream', 'readers', 'wg')}] if records else [],
                'exhaustive': all(c['edges_not_covered'] == 0 for c in cov['configs'].values()),
                'rule': 'TLC explores every call-level interleaving of feeder, helper goroutines and readers on Pipes.tla for each '
                        'configuration; an edge-covering set of behaviours is forced onto the real pipeline (helpers adopted through '
                        'the spawn hook); every completed real run, forced or free-running, is judged by TLC against the stream '
                        'relations of TracePipes.tla'})
    return 'model_checking', cov, ['each queue is an atomic bounded FIFO at the call level (established separately by C04 / C05)',
                                   'free-running runs sample schedules; data races are observed by the Go race detector only',
                                   'exhaustive for the listed small configurations only']
