"""C04 (linearizable bounded FIFO) and C05 (no lost wake-up, constructors
return): QueueImpl.tla model checking + forced schedule replay + free-running
stress, all real histories judged by QueueLin.tla."""
import json, os, subprocess, glob
import core, queueeng as qe, worldeng as we
from core import Infra


def A(v): return {'op': 'add', 'v': v}
REM = {'op': 'rem', 'v': 0}
CLOSE = {'op': 'close', 'v': 0}
CLEAR = {'op': 'clear', 'v': 0}
SIZE = {'op': 'size', 'v': 0}
EMPTY = {'op': 'empty', 'v': 0}
ARRAY = {'op': 'array', 'v': 0}


def P(cap, procs, after=None):
    return {'cap': cap, 'procs': procs, 'after': after or {}}


# well-formed programs: producers finish -> close -> consumers read until ok=false
PROGRAMS = {
    'w1': P(1, {'p1': [A(11), A(12)], 'c1': [REM, REM, REM], 'x': [CLOSE]}, {'x': ['p1']}),
    'w2': P(1, {'p1': [A(11)], 'p2': [A(21)], 'c1': [REM, REM], 'c2': [REM, REM], 'x': [CLOSE]}, {'x': ['p1', 'p2']}),
    'w3': P(2, {'p1': [A(11), A(12), A(13)], 'c1': [REM, REM, REM, REM], 's': [SIZE, ARRAY, EMPTY], 'x': [CLOSE]}, {'x': ['p1']}),
    'w4': P(1, {'p1': [A(11), A(12)], 'p2': [A(21)], 'c1': [REM, REM], 'c2': [REM, REM, REM], 'x': [CLOSE], 's': [SIZE, ARRAY]},
            {'x': ['p1', 'p2']}),
    'w5': P(2, {'p1': [A(11), A(12)], 'p2': [A(21), A(22)], 'c1': [REM, REM, REM], 'c2': [REM, REM, REM], 'x': [CLOSE]},
            {'x': ['p1', 'p2']}),
    'w6': P(3, {'p1': [A(11), A(12), A(13)], 'p2': [A(21)], 'p3': [A(31)], 'c1': [REM] * 6, 'x': [CLOSE], 's': [SIZE, EMPTY]},
            {'x': ['p1', 'p2', 'p3']}),
    # full queue, no consumer until the producers are done filling: back-pressure
    'b1': P(1, {'p1': [A(11), A(12)], 'p2': [A(21)], 's': [SIZE, SIZE], 'c1': [REM, REM, REM]}, {}),
    'b2': P(2, {'p1': [A(11), A(12), A(13)], 's': [SIZE, ARRAY], 'c1': [REM, REM, REM]}, {'c1': ['s']}),
    # RemoveAll callers (the family of the property includes them)
    'r1': P(1, {'p1': [A(11)], 'c1': [REM], 'r': [CLEAR]}),
    'r2': P(1, {'c1': [REM], 'r': [CLEAR], 'p1': [A(11)], 'x': [CLOSE]}, {'p1': ['r'], 'x': ['p1']}),
    'r3': P(2, {'p1': [A(11), A(12)], 'r': [CLEAR], 's': [SIZE, ARRAY]}, {}),
}
QUICK = ['w1', 'w2', 'w3', 'b1', 'r1', 'r2', 'r3']
THOROUGH = ['w1', 'w2', 'w3', 'w4', 'w5', 'w6', 'b1', 'b2', 'r1', 'r2', 'r3']


def run_programs(ctx, names, max_schedules):
    """model-check each program, replay an edge cover, return per-program results"""
    import concurrent.futures as cf

    def mc(name):
        return name, qe.model_check(ctx, name, PROGRAMS[name], workers=4)
    mcs = {}
    with cf.ThreadPoolExecutor(max_workers=max(1, core.NCPU // 4)) as ex:
        for name, r in ex.map(mc, names):
            mcs[name] = r
    out = {}
    for name in names:
        prog = PROGRAMS[name]
        qe._PROG_LEN = {p: len(c) for p, c in prog['procs'].items()}
        scheds, uncovered = qe.schedules_from_edges(mcs[name]['edges'], ctx.seed, max_schedules=max_schedules)
        res = qe.replay(ctx, name, prog, scheds)
        out[name] = {'prog': prog, 'mc': mcs[name], 'scheds': scheds, 'uncovered': uncovered, 'results': res}
    return out


def stress(ctx, n, race):
    vh = ctx.build_harness(race=True) if race else ctx.vh
    out = ctx.path('stress_%s.ndjson' % ('race' if race else 'plain'))
    env = dict(os.environ)
    logp = ctx.path('racelog')
    if race:
        env['GORACE'] = 'log_path=%s halt_on_error=0 exitcode=0' % logp
    r = subprocess.run([vh, 'queue-stress', '-n', str(n), '-seed', str(ctx.seed), '-out', out], env=env,
                       capture_output=True, text=True, timeout=3000)
    if r.returncode != 0:
        raise Infra('queue-stress failed: %s %s' % (r.stdout[-1000:], r.stderr[-1000:]))
    runs = [json.loads(l) for l in open(out)]
    races = []
    if race:
        for f in glob.glob(logp + '*'):
            txt = open(f).read()
            if 'DATA RACE' in txt:
                races.append(txt[:3000])
    return runs, races


def judge_common(ctx, prop, progres, stress_runs, races):
    """prop: 'C04' judges linearizability / panics / races; 'C05' judges
    blocked goroutines and termination."""
    cov = {'programs': {}, 'schedules_replayed': 0, 'drift': 0, 'states': 0, 'transitions': 0}
    items = []
    meta = {}
    for name, pr in progres.items():
        prog = pr['prog']
        hc = qe.has_clear(prog)
        st = {'ok': 0, 'drift': 0, 'stuck': 0, 'skipped': 0}
        for i, r in enumerate(pr['results']):
            st[r['status']] = st.get(r['status'], 0) + 1
            key = ('sched', name, i)
            meta[key] = (prog, pr['scheds'][i], r)
            if r['status'] == 'drift':
                ctx.drift.append('program %s schedule %d: %s' % (name, i, r['detail'][:200]))
            if r['status'] == 'stuck' and prop == 'C05':
                ctx.violation('program %s: %s' % (name, r['detail']),
                              {'engine': 'queue', 'kind': 'stuck', 'program': prog, 'schedule': pr['scheds'][i],
                               'observed': r, 'signature': {'engine': 'queue', 'kind': 'stuck', 'has_clear': hc}})
            if r['history']:
                items.append((key, prog['cap'], r['history']))
        cov['programs'][name] = {'distinct_states': pr['mc']['stats'].get('distinct'), 'edges': len(pr['mc']['edges']),
                                 'model_violations': sorted(pr['mc']['violated']), 'schedules': len(pr['scheds']),
                                 'edges_not_covered': pr['uncovered'], 'replay': st}
        cov['schedules_replayed'] += len(pr['scheds'])
        cov['drift'] += st['drift']
        cov['states'] += pr['mc']['stats'].get('distinct', 0)
        cov['transitions'] += len(pr['mc']['edges'])
        # a violated model property on a program without RemoveAll must show on the real code
        if not hc and pr['mc']['violated'] and not ctx.violations:
            ctx.drift.append('program %s: the model violates %s; see the replays of those behaviours' % (
                name, sorted(pr['mc']['violated'])))
    for run in stress_runs:
        key = ('stress', run['id'])
        meta[key] = (None, None, run)
        if prop == 'C05':
            if not run['done']:
                ctx.violation('free-running well-formed program (cap %d, %d producers, %d consumers) did not terminate: blocked %s' % (
                    run['cap'], run['producers'], run['consumers'], run['blocked']),
                    {'engine': 'queue', 'kind': 'nonterminating', 'observed': {k: run[k] for k in run if k != 'history'},
                     'history': run['history'][-60:], 'signature': {'engine': 'queue', 'kind': 'nonterminating', 'has_clear': False}})
            elif run['lost']:
                ctx.violation('values %s were added but never delivered' % run['lost'][:10],
                              {'engine': 'queue', 'kind': 'lost', 'observed': {k: run[k] for k in run if k != 'history'},
                               'signature': {'engine': 'queue', 'kind': 'lost', 'has_clear': False}})
        items.append((key, run['cap'], run['history']))
    rejected = []
    if prop == 'C04':
        rejected = qe.validate_histories(ctx, items, 'h')
        for key, off in rejected:
            prog, sched, r = meta[key]
            hist = r['history']
            pan = any(isinstance(e.get('r'), dict) and e['r'].get('t') == 'panic' for e in hist)
            hc = bool(prog) and qe.has_clear(prog)
            what = 'history not linearizable as a bounded FIFO (deepest event explained: %d of %d)%s: %s' % (
                off, len(hist), '; a valid call panicked' if pan else '',
                json.dumps([[e['e'], e['p'], e.get('op', ''), e.get('v', 0), e.get('r')] for e in hist[max(0, off - 6):off + 3]]))
            ctx.violation(what, {'engine': 'queue', 'kind': 'lin-reject', 'program': prog, 'schedule': sched,
                                 'history': hist, 'first_unexplained': off,
                                 'signature': {'engine': 'queue', 'kind': 'lin-reject', 'has_clear': hc}})
        for txt in races[:3]:
            ctx.violation('data race reported by the Go race detector in a free-running run:\n' + txt[:1200],
                          {'engine': 'queue', 'kind': 'race', 'report': txt,
                           'signature': {'engine': 'queue', 'kind': 'race', 'has_clear': False}})
    cov['histories_validated'] = len(items) if prop == 'C04' else 0
    cov['histories_rejected'] = len(rejected)
    cov['stress_runs'] = len(stress_runs)
    cov['race_reports'] = len(races)
    return cov, items


def check(ctx, prop):
    import time
    t0 = time.time()
    ctx.build_harness()
    names = QUICK if ctx.quick else THOROUGH
    progres = run_programs(ctx, names, 1500 if ctx.quick else 12000)
    ctx.notes.append('phase programs+replay %.1fs' % (time.time() - t0)); t0 = time.time()
    runs, races = stress(ctx, 150 if ctx.quick else 1500, race=False)
    ctx.notes.append('phase stress %.1fs' % (time.time() - t0)); t0 = time.time()
    if prop == 'C04' or not ctx.quick:
        r2, races = stress(ctx, 60 if ctx.quick else 600, race=True)
        for r in r2:
            r['id'] += 100000
        runs += r2
    ctx.notes.append('phase race stress %.1fs' % (time.time() - t0)); t0 = time.time()
    cov, items = judge_common(ctx, prop, progres, runs, races)
    ctx.notes.append('phase judge %.1fs' % (time.time() - t0))
    return cov, items


def finish_cov(cov, items, extra_rule=''):
    sample = None
    for key, cap, events in items:
        if events:
            sample = {'cap': cap, 'history': [[e['e'], e['p'], e.get('op', ''), e.get('v', 0), e.get('r')] for e in events[:14]]}
            break
    cov['traces_validated_against_impl'] = cov['schedules_replayed'] + cov['stress_runs']
    cov['samples'] = [sample]
    cov['exhaustive'] = all(p['edges_not_covered'] == 0 for p in cov['programs'].values())
    cov['rule'] = ('TLC explores every interleaving of each client program on QueueImpl.tla; an edge-covering set of its behaviours '
                   'is forced onto real goroutines through the verif hooks, the real state is compared after every step, and every '
                   'recorded invoke/return history (forced and free-running) is judged by TLC against QueueLin.tla' + extra_rule)
    return cov


ASSUME = ['hook points are the only scheduling points that matter: critical sections of queue.go contain no scheduling point',
          'the Go runtime implements channels as modelled in QueueImpl.tla (FIFO parked senders/receivers, hand-off, close broadcast)',
          'data races are observed by the Go race detector on free-running runs only (a TLA+ model has no memory model)',
          'exhaustive for the listed small client programs only']


def run_c04(ctx):
    cov, items = check(ctx, 'C04')
    return 'model_checking', finish_cov(cov, items), ASSUME


def run_c05(ctx):
    cov, items = check(ctx, 'C05')
    # constructors: the class-level constructors with 0..33 initial values (quiescent world model)
    edges, stats = we.gen_edges(ctx, 'queueseq', 1, 2, 1, 1, workers=min(8, core.NCPU))
    scripts, _ = we.make_scripts(edges, ctx.seed)
    ctors = [s for s in scripts if s['steps'][-1]['k'] == 'Queue' and s['steps'][-1]['m'].startswith('MakeFrom')]
    tf = we.run_scripts(ctx, 'int', ctors, 'queueseq')
    total, rejects = we.validate(ctx, [tf])
    byid = {s['id']: s for s in scripts}
    for rej in rejects:
        x = rej['line']
        if x['k'] == 'Queue' and (x['m'].startswith('MakeFrom') or x['pc'] == 'timeout'):
            we.judge(ctx, [rej], lambda f: 'int', byid)
    cov['constructor_scripts'] = len(ctors)
    cov['constructor_lines_validated'] = total
    return 'model_checking', finish_cov(cov, items, '; constructors with 0..33 initial values are replayed from the World model'), ASSUME
