"""check <id> --replay <path>: rebuilds the harness from the current tree and
re-executes exactly the script / schedule / input of a stored violation."""
import json, os, subprocess, sys
import core, worldeng as we


def replay(prop, path):
    rep = json.load(open(path))
    ctx = core.Ctx(prop)
    try:
        ctx.build_harness()
        eng = rep.get('engine')
        print('replaying %s (engine %s): %s' % (path, eng, rep.get('what', '')[:300]))
        if eng == 'world':
            sc = rep['script']
            one = {'id': 0, 'steps': sc['steps'], 'log_from': sc.get('log_from', 0)}
            if sc.get('blind'):
                # the harness must look at the objects at the same moments as in the original run
                one.update({'blind': True, 'pre': sc['pre']})
            tf = we.run_scripts(ctx, rep.get('codec', 'int'), [one], 'replay')
            total, rejects = we.validate(ctx, [tf])
            lines = [json.loads(l) for l in open(tf)]
            for l in lines:
                if l['t'] == 'call':
                    print('  %s.%s(self=%s, %s) -> %s%s' % (l['k'], l['m'], l['self'], l['args'], 'PANIC ' + l['pm'][:80] if l['p'] else json.dumps(l['r']),
                                                            ''))
            if rejects:
                x = rejects[0]['line']
                print('REPRODUCED: World.tla rejects %s.%s%s; observed world %s' % (x['k'], x['m'], x['args'], json.dumps(x['w'])[:400]))
                return 1
            print('NOT REPRODUCED: every step is accepted by World.tla on the current tree')
            return 0
        if eng == 'queue' and rep.get('schedule') and rep.get('program'):
            import queueeng as qe
            prog = rep['program']
            qe._PROG_LEN = {p: len(c) for p, c in prog['procs'].items()}
            res = qe.replay(ctx, 'replay', prog, [rep['schedule']])
            r = res[0]
            print('  schedule status: %s %s' % (r['status'], r['detail']))
            for e in r['history']:
                print('   ', e)
            if r['status'] == 'stuck':
                print('REPRODUCED: goroutines blocked')
                return 1
            items = [(0, prog['cap'], r['history'])]
            rej = qe.validate_histories(ctx, items, 'replay')
            if rej:
                print('REPRODUCED: QueueLin.tla rejects the history (first unexplained event %d)' % rej[0][1])
                return 1
            print('NOT REPRODUCED on the current tree')
            return 0
        # other engines: the stored observation, then the whole check again
        print(json.dumps({k: v for k, v in rep.items() if k not in ('report',)}, indent=1)[:3000])
        print('re-running the check of %s on the current tree ...' % prop)
        r = subprocess.run([os.path.join(core.VERIF, 'check'), prop], capture_output=True, text=True)
        sig = json.dumps(rep.get('signature'), sort_keys=True)
        import glob
        again = False
        for f in glob.glob(os.path.join(core.REPLAYS, prop + '-*.json')):
            try:
                if json.dumps(json.load(open(f)).get('signature'), sort_keys=True) == sig:
                    again = True
            except Exception:
                pass
        print(r.stdout[-1500:])
        print('REPRODUCED: a violation with the same signature occurs' if again and r.returncode == 1 else 'NOT REPRODUCED on the current tree')
        return 1 if again and r.returncode == 1 else 0
    finally:
        ctx.cleanup()
