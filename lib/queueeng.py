"""Engine for the queue (C04, C05): QueueImpl.tla model checking, schedule
extraction, forced replay on the real queue, validation of the recorded
histories against QueueLin.tla."""
import json, os, random, subprocess, collections, concurrent.futures as cf
from core import Infra, NCPU

PARKED = ('add_parked', 'rem_parked')


def tla_str(s):
    return '"%s"' % s


def tla_prog(calls):
    return '<<' + ', '.join('[op |-> "%s", v |-> %d]' % (c['op'], c.get('v', 0)) for c in calls) + '>>'


def mc_module(name, prog):
    """prog: {'cap':n, 'procs': {name: [calls]}, 'after': {name: [names]}}"""
    procs = sorted(prog['procs'])
    lines = ['---- MODULE %s ----' % name, 'EXTENDS QueueImpl, Json', '',
             'MCProcs == {%s}' % ', '.join(tla_str(p) for p in procs),
             'MCProg == [p \\in MCProcs |-> CASE ' + ' [] '.join(
                 'p = %s -> %s' % (tla_str(p), tla_prog(prog['procs'][p])) for p in procs) + ']',
             'MCAfter == [p \\in MCProcs |-> CASE ' + ' [] '.join(
                 'p = %s -> {%s}' % (tla_str(p), ', '.join(tla_str(q) for q in prog.get('after', {}).get(p, []))) for p in procs) + ']',
             'State == [pc |-> pc, ci |-> ci, vals |-> vals, chans |-> chans, avail |-> avail, res |-> res, locked |-> locked]',
             "StateP == [pc |-> pc', ci |-> ci', vals |-> vals', chans |-> chans', avail |-> avail', res |-> res', locked |-> locked']",
             'Act(a, p) == CASE a = "Start" -> Start(p) [] a = "AddCrit" -> AddCrit(p) [] a = "AddSend" -> AddSend(p)',
             '               [] a = "RemRecv" -> RemRecv(p) [] a = "RemCrit" -> RemCrit(p) [] a = "Close" -> Close(p)',
             '               [] a = "Clear" -> Clear(p) [] a = "Observe" -> Observe(p)',
             'Acts == {"Start", "AddCrit", "AddSend", "RemRecv", "RemCrit", "Close", "Clear", "Observe"}',
             'ExportNext == \\E p \\in Procs : \\E a \\in Acts :',
             '    Act(a, p) /\\ PrintT(ToJson([p |-> p, a |-> a, pre |-> State, post |-> StateP]))',
             'ExportSpec == Init /\\ [][ExportNext]_vars',
             'PlainSpec == Init /\\ [][Next]_vars',
             'LiveSpec == PlainSpec /\\ WF_vars(Next)',
             '====']
    return '\n'.join(lines) + '\n'


def has_clear(prog):
    return any(c['op'] == 'clear' for calls in prog['procs'].values() for c in calls)


def model_check(ctx, name, prog, export=True, liveness=True, timeout=900, workers=8):
    """Runs TLC on the program.  Returns dict(edges, stats, violated=[names])."""
    d = ctx.specdir()
    mod = 'MCQ_' + name
    with open(os.path.join(d, mod + '.tla'), 'w') as f:
        f.write(mc_module(mod, prog))
    consts = 'CONSTANTS\n  Procs <- MCProcs\n  Prog <- MCProg\n  After <- MCAfter\n  Cap = %d\n  MaxChan = %d\n' % (
        prog['cap'], 1 + sum(1 for calls in prog['procs'].values() for c in calls if c['op'] == 'clear'))
    # 1. export run with the invariants that hold even with RemoveAll callers
    def export_run(invs):
        cfg = 'SPECIFICATION %s\nCHECK_DEADLOCK FALSE\n%sINVARIANTS %s\n' % (
            'ExportSpec' if export else 'PlainSpec', consts, ' '.join(invs))
        return ctx.tlc(mod, cfg, workers=workers, timeout=timeout, name=mod + '_safe')

    MAYFAIL = ['NoPanic', 'NoStuck', 'TokensLeVals']
    violated = {}
    combined = not has_clear(prog)
    code, out = export_run(['Bounded'] + (MAYFAIL if combined else []))
    if combined and 'is violated' in out:
        # a model property fails on a program without RemoveAll: export without
        # them and find out which (a model violation is never a verdict by itself:
        # its behaviours are in the graph and are replayed on the real code)
        combined = False
        code, out = export_run(['Bounded'])
    edges, seen = [], set()
    stats = {}
    for line in out.splitlines():
        if line.startswith('"{'):
            if line not in seen:
                seen.add(line)
                edges.append(json.loads(json.loads(line)))
        elif 'distinct states found' in line and 'Progress' not in line:
            nums = [int(x) for x in line.replace(',', '').split() if x.isdigit()]
            stats = {'generated': nums[0], 'distinct': nums[1]}
    if 'Model checking completed. No error has been found.' not in out:
        tail = '\n'.join(l for l in out.splitlines() if not l.startswith('"{'))[-2500:]
        raise Infra('QueueImpl %s: safety run did not complete cleanly:\n%s' % (name, tail))
    if not combined:
        for inv in MAYFAIL:
            cfg = 'SPECIFICATION PlainSpec\nCHECK_DEADLOCK FALSE\n%sINVARIANTS %s\n' % (consts, inv)
            code, o = ctx.tlc(mod, cfg, workers=workers, timeout=timeout, name=mod + '_' + inv)
            if 'is violated' in o:
                violated[inv] = True
            elif 'No error has been found' not in o:
                raise Infra('QueueImpl %s: run for %s failed:\n%s' % (name, inv, o[-2000:]))
    if liveness:
        cfg = 'SPECIFICATION LiveSpec\nCHECK_DEADLOCK FALSE\n%sPROPERTIES Termination\n' % consts
        code, o = ctx.tlc(mod, cfg, workers=workers, timeout=timeout, name=mod + '_live')
        if 'Temporal propert' in o and 'violated' in o:
            violated['Termination'] = True
        elif 'No error has been found' not in o:
            raise Infra('QueueImpl %s: liveness run failed:\n%s' % (name, o[-2000:]))
    return {'edges': edges, 'stats': stats, 'violated': violated}


def canon(x):
    return json.dumps(x, sort_keys=True, separators=(',', ':'))


def obs_of(state):
    return {'vals': state['vals'], 'buf': state['chans'][state['avail'] - 1]['buf'], 'res': state['res'],
            'locked': state['locked']}


def step_of(ed):
    pre, post = ed['pre'], ed['post']
    arrive, park = [], []
    for q in pre['pc']:
        changed = pre['pc'][q] != post['pc'][q] or pre['ci'][q] != post['ci'][q]
        if q == ed['p']:
            if post['pc'][q] in PARKED:
                park.append(q)
            else:
                arrive.append(q)
        elif changed and post['pc'][q] not in PARKED:
            arrive.append(q)
    return {'p': ed['p'], 'a': ed['a'], 'arrive': sorted(arrive), 'park': park, 'obs': obs_of(post)}


def schedules_from_edges(edges, seed, max_schedules=4000):
    """An edge-covering set of behaviours from the initial state: repeatedly walk
    from the initial state to the nearest uncovered edge and keep walking over
    uncovered edges (preferred) until a terminal state."""
    rnd = random.Random(seed)
    out = collections.defaultdict(list)
    for i, ed in enumerate(edges):
        out[canon(ed['pre'])].append(i)
    init = None
    posts = set(canon(e['post']) for e in edges)
    for ed in edges:
        k = canon(ed['pre'])
        if k not in posts:
            init = k
            break
    if init is None:
        raise Infra('no initial state in exported graph')
    uncovered = set(range(len(edges)))
    postkey = [canon(e['post']) for e in edges]
    scheds = []

    def path_to_uncovered(start):
        # BFS over states until a state with an uncovered outgoing edge
        prev = {start: None}
        dq = collections.deque([start])
        while dq:
            s = dq.popleft()
            cand = [i for i in out.get(s, ()) if i in uncovered]
            if cand:
                path = []
                cur = s
                while prev[cur] is not None:
                    pe = prev[cur]
                    path.append(pe)
                    cur = canon(edges[pe]['pre'])
                return list(reversed(path)), s
            for i in out.get(s, ()):
                t = postkey[i]
                if t not in prev:
                    prev[t] = i
                    dq.append(t)
        return None, None

    while uncovered and len(scheds) < max_schedules:
        path, s = path_to_uncovered(init)
        if path is None:
            break
        walk = list(path)
        cur = s
        while True:
            outs = out.get(cur, ())
            if not outs:
                break
            cand = [i for i in outs if i in uncovered]
            if cand:
                i = rnd.choice(cand)
            else:
                # continue to a terminal state over covered edges, avoiding long loops
                if len(walk) > 200:
                    break
                i = rnd.choice(list(outs))
            walk.append(i)
            uncovered.discard(i)
            cur = postkey[i]
        for i in path:
            uncovered.discard(i)
        final = 'open'
        if not out.get(cur):
            st = edges[walk[-1]]['post'] if walk else None
            done = st is not None and all(st['pc'][p] == 'idle' for p in st['pc']) and True
            final = 'done' if done and all_finished(st) else 'stuck'
        scheds.append({'id': len(scheds), 'steps': [step_of(edges[i]) for i in walk], 'final': final})
    return scheds, len(uncovered)


_PROG_LEN = {}


def all_finished(st):
    return all(st['pc'][p] == 'idle' and st['ci'][p] == _PROG_LEN.get(p, st['ci'][p]) for p in st['pc'])


def replay(ctx, name, prog, scheds, timeout='500ms'):
    global _PROG_LEN
    job = {'cap': prog['cap'], 'procs': prog['procs'], 'schedules': scheds}
    jf = ctx.path('qjob_%s.json' % name)
    with open(jf, 'w') as f:
        json.dump(job, f)
    out = ctx.path('qres_%s.ndjson' % name)
    r = subprocess.run([ctx.vh, 'queue-replay', '-job', jf, '-out', out, '-timeout', timeout],
                       capture_output=True, text=True, timeout=3600)
    if r.returncode != 0:
        raise Infra('queue-replay failed: %s %s' % (r.stdout[-1500:], r.stderr[-1500:]))
    with open(out) as f:
        return [json.loads(l) for l in f]


# ---------------------------------------------------------------------------
# histories -> QueueLin

LIN_CFG = 'SPECIFICATION Spec\nCHECK_DEADLOCK FALSE\nINVARIANT NotAccepted\nCONSTRAINT HighWater\nPOSTCONDITION ReportHighWater\n'


def mark_backpressure(events):
    """bp flag of every `ret` of an add: the counting rule applies unless a
    RemoveAll is in flight during the add; `rs` marks the return of a RemoveAll
    (the counts restart there)"""
    pending_clear = 0
    tainted = {}
    for e in events:
        if e['e'] == 'inv':
            if e.get('op') == 'clear':
                pending_clear += 1
                for p in tainted:
                    tainted[p] = True
            tainted[e['p']] = pending_clear > 0
            e['_op'] = e.get('op')
        else:
            op = None
            for e2 in events:
                pass
    # second pass with explicit pairing
    pend = {}
    pending_clear = 0
    dirty = {}
    for e in events:
        if e['e'] == 'inv':
            pend[e['p']] = e.get('op')
            if e.get('op') == 'clear':
                pending_clear += 1
                for p in dirty:
                    dirty[p] = True
            dirty[e['p']] = pending_clear > 0
        else:
            op = pend.pop(e['p'], None)
            e['bp'] = (op == 'add') and not dirty.get(e['p'], False)
            e['rs'] = (op == 'clear')
            if op == 'clear':
                pending_clear -= 1
    return events


def write_history(f, cap, events, end=False):
    events = mark_backpressure([dict(e) for e in events])
    f.write(json.dumps({'e': 'reset', 'cap': cap, 'p': '', 'op': '', 'v': 0, 'r': {'t': 'none'}, 'bp': False, 'rs': False}) + '\n')
    for i, e in enumerate(events):
        r = e.get('r') or {'t': 'none'}
        if e['e'] == 'inv':
            # attach the result the call is going to return (read ahead)
            r = {'t': 'missing'}
            for e2 in events[i + 1:]:
                if e2['p'] == e['p']:
                    if e2['e'] == 'ret':
                        r = e2.get('r') or {'t': 'none'}
                    break
        f.write(json.dumps({'e': e['e'], 'p': e['p'], 'op': e.get('op', ''), 'v': e.get('v', 0),
                            'r': r, 'bp': bool(e.get('bp')), 'rs': bool(e.get('rs'))}) + '\n')
    if end:
        f.write(json.dumps({'e': 'end', 'cap': cap, 'p': '', 'op': '', 'v': 0, 'r': {'t': 'none'}, 'bp': False, 'rs': False}) + '\n')


def complete(events):
    """only histories in which every invoked call returned can be judged for
    linearizability as a whole; pending calls are dropped (they may or may
    not have taken effect: handled by cutting the history at the last point
    where nothing is pending is too weak, so pending calls are kept out and
    the history is flagged)"""
    pend = set()
    for e in events:
        if e['e'] == 'inv':
            pend.add(e['p'])
        else:
            pend.discard(e['p'])
    return not pend


LIN_FAST = 'SPECIFICATION Spec\nCHECK_DEADLOCK FALSE\nINVARIANT NotAccepted\n'
DEQUE = ('-Dtlc2.tool.queue.IStateQueue=StateDeque',)


def _lin_run(ctx, items, tag, diag):
    """One TLC run over a batch.  Returns None if accepted, else the index (in
    items) of the first rejected history and the offset of the deepest event
    reached in it (diag=True) or (-1, -1) when rejected without diagnostics."""
    tf = ctx.path('qlin_%s.ndjson' % tag)
    starts, n = [], 0
    with open(tf, 'w') as f:
        for it in items:
            key, cap, events = it[:3]
            starts.append(n + 1)
            # the end of a history is judged only if it is a real end (goroutines blocked,
            # watchdog), not when the harness abandoned a schedule it could not realise
            incomplete = (not complete(events)) and (len(it) < 4 or it[3])
            write_history(f, cap, events, end=incomplete)
            n += 1 + len(events) + (1 if incomplete else 0)
    code, out = ctx.tlc('TraceQueueLin', LIN_CFG if diag else LIN_FAST, env={'TRACE': tf}, workers=1 if diag else 2,
                        timeout=1800, name='QL', heap='3g', jvm=() if diag else DEQUE)
    if 'Invariant NotAccepted is violated' in out:
        return None
    if 'Model checking completed. No error has been found.' not in out:
        raise Infra('TraceQueueLin failed:\n' + out[-3000:])
    if not diag:
        return (-1, -1)
    hw = None
    for l in out.splitlines():
        if l.startswith('<<"HIGHWATER"'):
            hw = int(l.split(',')[1].strip(' >'))
    if hw is None:
        raise Infra('TraceQueueLin rejected a batch but reported no high-water mark:\n' + out[-2000:])
    idx = max(i for i, s in enumerate(starts) if s <= hw)
    return idx, hw - starts[idx]


def validate_histories(ctx, items, tag, chunk=250, par=None, group=None):
    """items: list of (key, cap, events).  Returns [(key, offset of the deepest
    event explained)] for the histories QueueLin rejects.  Batches run in
    parallel with a depth-first queue; a rejected batch is re-run with
    diagnostics, the rejected history cut out and the rest re-validated."""
    par = par or max(1, NCPU // 2)
    if group is None:
        batches = [items[i:i + chunk] for i in range(0, len(items), chunk)]
    else:
        # one batch per group (e.g. per client program): the rejections of one group
        # (known findings, say) do not use up the budget of another
        by = {}
        for it in items:
            by.setdefault(group(it), []).append(it)
        batches = [g[i:i + chunk] for g in by.values() for i in range(0, len(g), chunk)]
    rejected = []

    def one(arg):
        bi, batch = arg
        rej = []
        todo = list(batch)
        n = 0
        while todo:
            n += 1
            if n > 6:
                break          # plenty of evidence from this batch already
            r = _lin_run(ctx, todo, '%s_%d_%d' % (tag, bi, n), diag=False)
            if r is None:
                break
            idx, off = _lin_run(ctx, todo, '%s_%d_%dd' % (tag, bi, n), diag=True) or (None, None)
            if idx is None:
                break
            rej.append((todo[idx][0], off))
            todo = todo[:idx] + todo[idx + 1:]
        return rej

    with cf.ThreadPoolExecutor(max_workers=par) as ex:
        for rej in ex.map(one, list(enumerate(batches))):
            rejected += rej
    return rejected


# ---------------------------------------------------------------------------
# Pipes (C06)

def pipes_module(name, stream):
    acts = ['FeederAdd', 'FeederClose', 'HelperTake', 'HelperPut', 'HelperClose', 'JoinerTake', 'JoinerPut', 'JoinerClose']
    lines = ['---- MODULE %s ----' % name, 'EXTENDS Pipes, Json', '',
             'MCStream == <<%s>>' % ', '.join(str(v) for v in stream),
             'State == [qs |-> qs, pc |-> pc, got |-> got, wg |-> wg, sent |-> sent]',
             "StateP == [qs |-> qs', pc |-> pc', got |-> got', wg |-> wg', sent |-> sent']",
             'Emit(a, p) == PrintT(ToJson([a |-> a, p |-> p, pre |-> State, post |-> StateP]))',
             'ExportNext ==']
    for a in acts:
        proc = 'feeder' if a.startswith('Feeder') else 'helper' if a.startswith('Helper') else 'joiner'
        lines.append('    \\/ (%s /\\ Emit("%s", "%s"))' % (a, a, proc))
    lines += ['    \\/ \\E r \\in Readers : (Read(r) /\\ Emit("Read", r))',
              'ExportSpec == Init /\\ [][ExportNext]_vars',
              'LiveSpec == Init /\\ [][Next]_vars /\\ WF_vars(Next)', '====']
    return '\n'.join(lines) + '\n'


def pipes_check(ctx, mode, k, stream, cap, workers=4, timeout=900):
    name = 'MCP_%s_%d_%d_%d' % (mode, k, len(stream), cap)
    d = ctx.specdir()
    with open(os.path.join(d, name + '.tla'), 'w') as f:
        f.write(pipes_module(name, stream))
    consts = 'CONSTANTS\n  Mode = "%s"\n  K = %d\n  Stream <- MCStream\n  Cap = %d\n' % (mode, k, cap)
    cfg = 'SPECIFICATION ExportSpec\nCHECK_DEADLOCK FALSE\n%sINVARIANTS OrderInv Complete ClosedAfterDrain Bounded WgInv NoStuck\n' % consts
    code, out = ctx.tlc(name, cfg, workers=workers, timeout=timeout, name=name + '_safe')
    edges, seen, stats = [], set(), {}
    for line in out.splitlines():
        if line.startswith('"{'):
            if line not in seen:
                seen.add(line)
                edges.append(json.loads(json.loads(line)))
        elif 'distinct states found' in line and 'Progress' not in line:
            nums = [int(x) for x in line.replace(',', '').split() if x.isdigit()]
            stats = {'generated': nums[0], 'distinct': nums[1]}
    violated = []
    if 'is violated' in out:
        import re
        violated = re.findall(r'Invariant (\w+) is violated', out)
    elif 'Model checking completed. No error has been found.' not in out:
        raise Infra('Pipes %s: safety run failed:\n%s' % (name, '\n'.join(l for l in out.splitlines() if not l.startswith('"{'))[-2500:]))
    cfg = 'SPECIFICATION LiveSpec\nCHECK_DEADLOCK FALSE\n%sPROPERTIES Termination\n' % consts
    code, o = ctx.tlc(name, cfg, workers=workers, timeout=timeout, name=name + '_live')
    if 'Temporal propert' in o and 'violated' in o:
        violated.append('Termination')
    elif 'No error has been found' not in o:
        raise Infra('Pipes %s: liveness run failed:\n%s' % (name, o[-2000:]))
    return {'edges': edges, 'stats': stats, 'violated': violated}


def pipes_schedules(edges, seed, max_schedules=3000):
    rnd = random.Random(seed)
    out = collections.defaultdict(list)
    for i, ed in enumerate(edges):
        out[canon(ed['pre'])].append(i)
    posts = set(canon(e['post']) for e in edges)
    init = next(canon(e['pre']) for e in edges if canon(e['pre']) not in posts)
    postkey = [canon(e['post']) for e in edges]
    uncovered = set(range(len(edges)))
    scheds = []

    def step(ed):
        pre, post = ed['pre'], ed['post']
        p = ed['p']
        got = False
        if ed['a'] in ('HelperTake', 'JoinerTake'):
            got = post['pc'][p] == 'put'
        elif ed['a'] == 'Read':
            got = len(post['got'][p]) > len(pre['got'][p])
        return {'a': ed['a'], 'p': p, 'got': got, 'end': post['pc'][p] == 'done',
                'obs': {'qs': {n: post['qs'][n]['q'] for n in post['qs']}, 'got': post['got'], 'wg': post['wg']}}

    def bfs(start):
        prev = {start: None}
        dq = collections.deque([start])
        while dq:
            s = dq.popleft()
            if any(i in uncovered for i in out.get(s, ())):
                path, cur = [], s
                while prev[cur] is not None:
                    path.append(prev[cur])
                    cur = canon(edges[prev[cur]]['pre'])
                return list(reversed(path)), s
            for i in out.get(s, ()):
                if postkey[i] not in prev:
                    prev[postkey[i]] = i
                    dq.append(postkey[i])
        return None, None

    while uncovered and len(scheds) < max_schedules:
        path, s = bfs(init)
        if path is None:
            break
        walk, cur = list(path), s
        while out.get(cur):
            cand = [i for i in out[cur] if i in uncovered] or list(out[cur])
            i = rnd.choice(cand)
            walk.append(i)
            uncovered.discard(i)
            cur = postkey[i]
        for i in path:
            uncovered.discard(i)
        last = edges[walk[-1]]['post']
        final = 'done' if all(v == 'done' for v in last['pc'].values()) else 'stuck'
        scheds.append({'id': len(scheds), 'steps': [step(edges[i]) for i in walk], 'final': final})
    return scheds, len(uncovered)


def pipes_replay(ctx, mode, k, stream, cap, scheds):
    tag = '%s_%d_%d_%d' % (mode, k, len(stream), cap)
    jf = ctx.path('pjob_%s.json' % tag)
    with open(jf, 'w') as f:
        json.dump({'mode': mode, 'k': k, 'cap': cap, 'stream': stream, 'schedules': scheds}, f)
    out = ctx.path('pres_%s.ndjson' % tag)
    r = subprocess.run([ctx.vh, 'pipe-replay', '-job', jf, '-out', out], capture_output=True, text=True, timeout=3600)
    if r.returncode != 0:
        raise Infra('pipe-replay failed: %s %s' % (r.stdout[-1500:], r.stderr[-1500:]))
    return [json.loads(l) for l in open(out)]
