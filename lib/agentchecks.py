"""C09 (sorter) - and the collator checks C07 / C08 - decided by law modules
evaluated by TLC over observation tables recorded from the real code."""
import json, os, re, subprocess
import core
from core import Infra


def _tlc_const(ctx, module, consts, env=None, name=None, timeout=1200, heap='6g'):
    cfg = 'SPECIFICATION Spec\nCHECK_DEADLOCK FALSE\nCONSTANTS\n' + ''.join('  %s = %s\n' % kv for kv in consts.items())
    code, out = ctx.tlc(module, cfg, env=env, workers=1, timeout=timeout, name=name or module, heap=heap)
    if 'No error has been found' not in out:
        raise Infra('%s failed:\n%s' % (module, out[-3000:]))
    return out


def _set_after(out, tag):
    m = re.search(r'<<\s*"%s",\s*\{([^}]*)\}\s*>>' % tag, out, re.S)
    if not m:
        raise Infra('no %s set in TLC output:\n%s' % (tag, out[-2000:]))
    return [int(t) for t in m.group(1).split(',') if t.strip()]


def run_c09(ctx):
    ctx.build_harness()
    maxlen, vals = (6, '{0, 1, 2}') if ctx.quick else (8, '{0, 1, 2, 3}')
    # the algorithm model satisfies the laws for every input and ranker (TLC, exhaustive)
    mlen = maxlen if ctx.quick else 7
    out = _tlc_const(ctx, 'MergeSort', {'MODE': '"model"', 'MaxLen': mlen, 'Vals': vals}, name='MS_model')
    if '<<"MODELOK", TRUE>>' not in out:
        ctx.drift.append('MergeSort.tla does not satisfy SortLaws for some input (model defect)')
    # TLC enumerates the inputs
    out = _tlc_const(ctx, 'SortLaws', {'MODE': '"gen"', 'MaxLen': maxlen, 'Vals': vals}, name='SL_gen')
    inputs = [json.loads(json.loads(l)) for l in out.splitlines() if l.startswith('"[')]
    inf = ctx.path('sort_inputs.ndjson')
    with open(inf, 'w') as f:
        for a in inputs:
            f.write(json.dumps(a) + '\n')
    recf = ctx.path('sort_records.ndjson')
    nrand = 60 if ctx.quick else 600
    r = subprocess.run([ctx.vh, 'sort-run', '-inputs', inf, '-out', recf, '-random', str(nrand), '-seed', str(ctx.seed)],
                       capture_output=True, text=True, timeout=3000)
    if r.returncode != 0:
        raise Infra('sort-run failed: %s %s' % (r.stdout[-1000:], r.stderr[-1000:]))
    recs = [json.loads(l) for l in open(recf)]
    # property-level judgement
    lawf = ctx.path('sort_law.ndjson')
    with open(lawf, 'w') as f:
        for x in recs:
            f.write(json.dumps({k: x[k] for k in ('op', 'via', 'ranker', 'input', 'output', 'calls')}) + '\n')
    out = _tlc_const(ctx, 'SortLaws', {'MODE': '"check"', 'MaxLen': 0, 'Vals': '{0}'}, env={'TRACE': lawf}, name='SL_check')
    bad = _set_after(out, 'BAD')
    for i in bad:
        x = recs[i - 1]
        what = '%s via %s with ranker %r on %s gave %s (%d ranker calls)' % (
            x['op'], x['via'], x['ranker'], json.dumps([p[0] for p in x['input']][:40]),
            json.dumps(x['output'][:40]), x['calls'])
        ctx.violation(what, {'engine': 'sort', 'record': x, 'signature': {'engine': 'sort', 'op': x['op'], 'via': x['via']}})
    # same effect through every API: identical value sequences for total preorders
    groups = {}
    for x in recs:
        if x['op'] == 'sort' and x['ranker'] in ('nat', 'rev', 'coarse', 'const') and not x['via'].endswith('-default'):
            groups.setdefault((json.dumps(x['input']), x['ranker']), []).append(x)
    ndiff = 0
    for (inp, rk), xs in groups.items():
        ref = [p[0] for p in xs[0]['output']]
        for x in xs[1:]:
            if [p[0] for p in x['output']] != ref and ndiff < 5:
                ndiff += 1
                ctx.violation('sorting %s with ranker %r differs between %s (%s) and %s (%s)' % (
                    inp[:200], rk, xs[0]['via'], ref[:30], x['via'], [p[0] for p in x['output']][:30]),
                    {'engine': 'sort', 'records': [xs[0], x], 'signature': {'engine': 'sort', 'op': 'sort-differs', 'via': x['via']}})
    # implementation-level binding: the comparison sequence is the model's (drift only)
    trf = ctx.path('sort_trace.ndjson')
    ntrace = 0
    with open(trf, 'w') as f:
        for x in recs:
            if x['op'] == 'sort' and x['via'] == 'sorter' and len(x['input']) <= 16:
                ntrace += 1
                f.write(json.dumps({k: x[k] for k in ('ranker', 'input', 'output', 'cmps')}) + '\n')
    out = _tlc_const(ctx, 'MergeSort', {'MODE': '"trace"', 'MaxLen': 0, 'Vals': '{0}'}, env={'TRACE': trf}, name='MS_trace')
    drift = _set_after(out, 'DRIFT')
    if drift:
        ctx.drift.append('%d of %d sorter runs do not follow MergeSort.tla (comparison sequence or result differs): the algorithm changed' % (
            len(drift), ntrace))
    nontrivial = len({(json.dumps(x['input']), x['ranker'], x['op'], x['via']) for x in recs if len(x['input']) >= 2})
    cov = {'evaluations': len(recs), 'distinct_nontrivial': nontrivial, 'exhaustive': True,
           'rule': 'every array of length 0..%d over %s (enumerated by TLC) and %d seeded random arrays up to length 5000, each through '
                   'the sorter and the Array / List / Catalog methods with 7 rankers, plus reverse (once, twice) and shuffle; '
                   'non-trivial = distinct (input, ranker, operation, API) with at least two elements' % (maxlen, vals, nrand),
           'samples': [{k: recs[len(recs) // 2][k] for k in ('op', 'via', 'ranker', 'input', 'output', 'calls')}],
           'inputs_enumerated_by_tlc': len(inputs), 'random_arrays': nrand, 'records_rejected': len(bad),
           'model_checked_inputs': 'MergeSort.tla: all arrays of length 0..%d x 7 rankers satisfy the laws' % mlen,
           'comparison_traces_validated': ntrace, 'comparison_traces_drifting': len(drift)}
    return 'exploration', cov, ['rankers are pure functions of the value token', 'TLC evaluates the laws over recorded observations; it does not execute Go']
