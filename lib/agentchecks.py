"""C09 (sorter) - and the collator checks C07 / C08 - decided by law modules
evaluated by TLC over observation tables recorded from the real code."""
import json, os, re, subprocess
import core
from core import Infra


def _tlc_const(ctx, module, consts, env=None, name=None, timeout=1200, heap='6g'):
    cfg = 'SPECIFICATION Spec\nCHECK_DEADLOCK FALSE\nCONSTANTS\n' + ''.join('  %s = %s\n' % kv for kv in consts.items())
    code, out = ctx.tlc(module, cfg, env=env, workers=1, timeout=timeout, name=name or module, heap=heap)
    if 'No error has been found' not in out:
        raise Infra('%s failed:\n%s' % (module, out[-3000:]))
    return out


def _set_after(out, tag):
    m = re.search(r'<<\s*"%s",\s*\{([^}]*)\}\s*>>' % tag, out, re.S)
    if not m:
        raise Infra('no %s set in TLC output:\n%s' % (tag, out[-2000:]))
    return [int(t) for t in m.group(1).split(',') if t.strip()]


def run_c09(ctx):
    ctx.build_harness()
    maxlen, vals = (6, '{0, 1, 2}') if ctx.quick else (7, '{0, 1, 2}')
    # the algorithm model satisfies the laws for every input and ranker (TLC, exhaustive)
    mlen = maxlen if ctx.quick else 7
    out = _tlc_const(ctx, 'MergeSort', {'MODE': '"model"', 'MaxLen': mlen, 'Vals': vals}, name='MS_model')
    if '<<"MODELOK", TRUE>>' not in out:
        ctx.drift.append('MergeSort.tla does not satisfy SortLaws for some input (model defect)')
    # TLC enumerates the inputs
    out = _tlc_const(ctx, 'SortLaws', {'MODE': '"gen"', 'MaxLen': maxlen, 'Vals': vals}, name='SL_gen')
    inputs = [json.loads(json.loads(l)) for l in out.splitlines() if l.startswith('"[')]
    inf = ctx.path('sort_inputs.ndjson')
    with open(inf, 'w') as f:
        for a in inputs:
            f.write(json.dumps(a) + '\n')
    recf = ctx.path('sort_records.ndjson')
    nrand = 60 if ctx.quick else 600
    r = subprocess.run([ctx.vh, 'sort-run', '-inputs', inf, '-out', recf, '-random', str(nrand), '-seed', str(ctx.seed)],
                       capture_output=True, text=True, timeout=3000)
    if r.returncode != 0:
        raise Infra('sort-run failed: %s %s' % (r.stdout[-1000:], r.stderr[-1000:]))
    recs = [json.loads(l) for l in open(recf)]
    # property-level judgement
    lawf = ctx.path('sort_law.ndjson')
    with open(lawf, 'w') as f:
        for x in recs:
            f.write(json.dumps({k: x[k] for k in ('op', 'via', 'ranker', 'input', 'output', 'calls')}) + '\n')
    out = _tlc_const(ctx, 'SortLaws', {'MODE': '"check"', 'MaxLen': 0, 'Vals': '{0}'}, env={'TRACE': lawf}, name='SL_check')
    bad = _set_after(out, 'BAD')
    over = _set_after(out, 'OVERBOUND')
    if over:
        ctx.drift.append('%d sort records needed more ranker calls than the merge sort of MergeSort.tla can (n*ceil(log2 n)+n): '
                         'the algorithm changed' % len(over))
    for i in bad:
        x = recs[i - 1]
        what = '%s via %s with ranker %r on %s gave %s (%d ranker calls)' % (
            x['op'], x['via'], x['ranker'], json.dumps([p[0] for p in x['input']][:40]),
            json.dumps(x['output'][:40]), x['calls'])
        ctx.violation(what, {'engine': 'sort', 'record': x, 'signature': {'engine': 'sort', 'op': x['op'], 'via': x['via']}})
    # same effect through every API: identical value sequences for total preorders
    groups = {}
    for x in recs:
        if x['op'] == 'sort' and x['ranker'] in ('nat', 'rev', 'coarse', 'const') and not x['via'].endswith('-default'):
            groups.setdefault((json.dumps(x['input']), x['ranker']), []).append(x)
    ndiff = 0
    for (inp, rk), xs in groups.items():
        ref = [p[0] for p in xs[0]['output']]
        for x in xs[1:]:
            if [p[0] for p in x['output']] != ref and ndiff < 5:
                ndiff += 1
                ctx.violation('sorting %s with ranker %r differs between %s (%s) and %s (%s)' % (
                    inp[:200], rk, xs[0]['via'], ref[:30], x['via'], [p[0] for p in x['output']][:30]),
                    {'engine': 'sort', 'records': [xs[0], x], 'signature': {'engine': 'sort', 'op': 'sort-differs', 'via': x['via']}})
    # implementation-level binding: the comparison sequence is the model's (drift only)
    trf = ctx.path('sort_trace.ndjson')
    ntrace = 0
    with open(trf, 'w') as f:
        for x in recs:
            if x['op'] == 'sort' and x['via'] == 'sorter' and len(x['input']) <= 16:
                ntrace += 1
                f.write(json.dumps({k: x[k] for k in ('ranker', 'input', 'output', 'cmps')}) + '\n')
    out = _tlc_const(ctx, 'MergeSort', {'MODE': '"trace"', 'MaxLen': 0, 'Vals': '{0}'}, env={'TRACE': trf}, name='MS_trace')
    drift = _set_after(out, 'DRIFT')
    if drift:
        ctx.drift.append('%d of %d sorter runs do not follow MergeSort.tla (comparison sequence or result differs): the algorithm changed' % (
            len(drift), ntrace))
    # histories: every pair of consecutive calls among the Sortable methods and the
    # mutations of List / Array / Catalog, judged by World.tla
    import worldchecks
    wc = ((2, 3, 0, 1), (2, 3, 0, 1)) if ctx.quick else ((3, 3, 0, 1), (2, 4, 0, 1))
    wcov = worldchecks.run_pairs(ctx, [('sort', wc[0]), ('sortA', wc[1])], ['int'] if ctx.quick else ['int', 'string', 'any'])
    nontrivial = len({(json.dumps(x['input']), x['ranker'], x['op'], x['via']) for x in recs if len(x['input']) >= 2})
    cov = {'world_histories': wcov,'evaluations': len(recs), 'distinct_nontrivial': nontrivial, 'exhaustive': True,
           'rule': 'every array of length 0..%d over %s (enumerated by TLC) and %d seeded random arrays up to length 5000, each through '
                   'the sorter and the Array / List / Catalog methods with 7 rankers, plus reverse (once, twice) and shuffle; '
                   'non-trivial = distinct (input, ranker, operation, API) with at least two elements' % (maxlen, vals, nrand),
           'samples': [{k: recs[len(recs) // 2][k] for k in ('op', 'via', 'ranker', 'input', 'output', 'calls')}],
           'inputs_enumerated_by_tlc': len(inputs), 'random_arrays': nrand, 'records_rejected': len(bad),
           'model_checked_inputs': 'MergeSort.tla: all arrays of length 0..%d x 7 rankers satisfy the laws' % mlen,
           'comparison_traces_validated': ntrace, 'comparison_traces_drifting': len(drift)}
    return 'exploration', cov, ['rankers are pure functions of the value token', 'TLC evaluates the laws over recorded observations; it does not execute Go']


# ---------------------------------------------------------------------------
# C07 / C08: collator tables

LAWS = ['L1-reflexive', 'L2-mirror', 'L3-transitive', 'no-panic', 'L4-documented-order',
        'L8-compare-agrees-with-rank', 'L8-compare-symmetric', 'L8-compare-transitive']
C07_LAWS = {'L1-reflexive', 'L2-mirror', 'L3-transitive', 'no-panic', 'L4-documented-order'}
C08_LAWS = {'L8-compare-agrees-with-rank', 'L8-compare-symmetric', 'L8-compare-transitive', 'no-panic'}
LT, EQ, GT = 1, 2, 3


def witnesses(t, law):
    """index tuples violating the law in table t (computed from the matrices,
    to describe what TLC rejected)"""
    R, E, n = t['rank'], t['eq'], len(t['vals'])
    out = []
    rng = range(n)
    if law == 'L1-reflexive':
        out = [(i,) for i in rng if R[i][i] != EQ]
    elif law == 'L2-mirror':
        out = [(i, j) for i in rng for j in rng if R[i][j] != (0 if R[j][i] == 0 else 4 - R[j][i])]
    elif law == 'L3-transitive':
        out = [(i, j, k) for i in rng for j in rng for k in rng
               if R[i][j] in (LT, EQ) and R[j][k] in (LT, EQ) and R[i][k] not in (LT, EQ)]
    elif law == 'no-panic':
        out = [(i, j) for i in rng for j in rng if R[i][j] == 0 or E[i][j] == 2]
    elif law == 'L4-documented-order':
        out = [('order',)]
    elif law == 'L8-compare-agrees-with-rank':
        out = [(i, j) for i in rng for j in rng if (E[i][j] == 1) != (R[i][j] == EQ)]
    elif law == 'L8-compare-symmetric':
        out = [(i, j) for i in rng for j in rng if E[i][j] != E[j][i]]
    elif law == 'L8-compare-transitive':
        out = [(i, j, k) for i in rng for j in rng for k in rng if E[i][j] == 1 and E[j][k] == 1 and E[i][k] != 1]
    return out


def collate(ctx):
    """runs the whole collator machinery once; returns (tables, failed, stateful, cyclic cases, crash)"""
    ctx.build_harness()
    maxlen, nleaf = (2, 3)
    out = _tlc_const(ctx, 'CollatorLaws', {'MODE': '"gen"', 'MaxLen': maxlen, 'NLeaf': nleaf}, name='CL_gen')
    uf = ctx.path('universe.ndjson')
    nuniv = 0
    with open(uf, 'w') as f:
        for l in out.splitlines():
            if l.startswith('"{'):
                f.write(json.loads(l) + '\n')
                nuniv += 1
    tf = ctx.path('tables.ndjson')
    r = subprocess.run([ctx.vh, 'collate-tables', '-universe', uf, '-out', tf], capture_output=True, text=True, timeout=1200)
    if r.returncode != 0:
        raise Infra('collate-tables failed: %s %s' % (r.stdout[-1000:], r.stderr[-1500:]))
    tables = [json.loads(l) for l in open(tf)]
    # self-containing values: a process of its own (a stack overflow is fatal)
    cf_, cc = ctx.path('ctables.ndjson'), ctx.path('ccases.ndjson')
    crash = None
    try:
        r = subprocess.run([ctx.vh, 'collate-cyclic', '-universe', uf, '-out', cf_, '-cases', cc], capture_output=True, text=True, timeout=120)
        if r.returncode != 0:
            crash = (r.stderr or r.stdout)[:600]
    except subprocess.TimeoutExpired:
        crash = 'the process comparing self-containing values did not finish within 120 s'
    cases = [json.loads(l) for l in open(cc)] if os.path.exists(cc) else []
    ctabs = [json.loads(l) for l in open(cf_)] if os.path.exists(cf_) and not crash else []
    tables += ctabs
    lawf = ctx.path('tables_tlc.ndjson')
    with open(lawf, 'w') as f:
        for t in tables:
            f.write(json.dumps({k: t[k] for k in ('name', 'mode', 'vals', 'rank', 'eq')}) + '\n')
    out = _tlc_const(ctx, 'CollatorLaws', {'MODE': '"check"', 'MaxLen': 0, 'NLeaf': 1}, env={'TRACE': lawf}, name='CL_check')
    m = re.search(r'<<\s*"FAILED",\s*\{(.*?)\}\s*>>', out, re.S)
    s = re.search(r'<<\s*"STATEFUL",\s*\{(.*?)\}\s*>>', out, re.S)
    if not m or not s:
        raise Infra('CollatorLaws gave no verdict:\n' + out[-2000:])
    failed = [(int(a), int(b)) for a, b in re.findall(r'<<\s*(\d+),\s*(\d+)\s*>>', m.group(1))]
    stateful = [(int(a), int(b)) for a, b in re.findall(r'<<\s*(\d+),\s*(\d+)\s*>>', s.group(1))]
    return tables, failed, stateful, cases, crash, nuniv


def judge_collator(ctx, prop, laws):
    tables, failed, stateful, cases, crash, nuniv = collate(ctx)
    nv = 0
    for ti, n in failed:
        law = LAWS[n - 1]
        if law not in laws:
            continue
        t = tables[ti - 1]
        wit = witnesses(t, law)
        if law == 'no-panic':
            # a panic of RankValues concerns C07, of CompareValues C08
            wit = [w for w in wit if (t['rank'][w[0]][w[1]] == 0 if prop == 'C07' else t['eq'][w[0]][w[1]] == 2)]
            if not wit:
                continue
        fam = t['name'].split('/')[1] if t['name'].startswith('leaf/') else t['name']
        shown = [[t['show'][i] for i in w if isinstance(i, int)] for w in wit[:4]]
        special = 'none'
        flat = [t['show'][i] for w in wit for i in w if isinstance(i, int)]
        if fam.startswith('float') and wit and all(any('NaN' in t['show'][i] for i in w if isinstance(i, int)) for w in wit):
            special = 'nan'
        if fam.startswith('complex'):
            special = 'complex'
        what = 'table %s (%s collator): law %s fails, e.g. for %s' % (t['name'], t['mode'], law, json.dumps(shown))
        ctx.violation(what, {'engine': 'collate', 'table': t['name'], 'mode': t['mode'], 'law': law, 'witnesses': shown,
                             'values': t['show'], 'rank': t['rank'], 'eq': t['eq'],
                             'signature': {'engine': 'collate', 'family': fam.rstrip('0123456789') if t['name'].startswith('leaf/') else fam,
                                           'law': law, 'special': special}})
        nv += 1
    if prop == 'C07':
        for a, b in stateful[:5]:
            ctx.violation('tables %s differ between collator modes %s and %s: the result depends on earlier calls' % (
                tables[a - 1]['name'], tables[a - 1]['mode'], tables[b - 1]['mode']),
                {'engine': 'collate', 'table': tables[a - 1]['name'], 'modes': [tables[a - 1]['mode'], tables[b - 1]['mode']],
                 'signature': {'engine': 'collate', 'family': tables[a - 1]['name'], 'law': 'L9-stateless', 'special': 'none'}})
    if prop == 'C08':
        if crash:
            ctx.violation('comparing / ranking self-containing values killed the process: ' + crash,
                          {'engine': 'collate', 'kind': 'crash', 'detail': crash,
                           'signature': {'engine': 'collate', 'family': 'cyclic', 'law': 'terminates', 'special': 'crash'}})
        for c in cases:
            if c['outcome'] != 'depth-panic':
                ctx.violation('%s on a %s: %s %s (expected the documented depth-limit panic)' % (c['op'], c['case'], c['outcome'], c['detail']),
                              {'engine': 'collate', 'kind': 'cyclic', 'case': c,
                               'signature': {'engine': 'collate', 'family': 'cyclic', 'law': 'depth-limit-panic', 'special': c['outcome']}})
        for a, b in stateful[:5]:
            if 'after-panic' in tables[a - 1]['mode'] or 'after-panic' in tables[b - 1]['mode']:
                ctx.violation('after a depth-limit panic the collator no longer reproduces table %s' % tables[a - 1]['name'],
                              {'engine': 'collate', 'table': tables[a - 1]['name'],
                               'signature': {'engine': 'collate', 'family': 'cyclic', 'law': 'usable-after-panic', 'special': 'none'}})
    cells = sum(len(t['vals']) ** 2 for t in tables)
    triples = sum(len(t['vals']) ** 3 for t in tables)
    nontrivial = sum(len(t['vals']) * (len(t['vals']) - 1) for t in tables if t['mode'] == 'fresh')
    cov = {'evaluations': cells * 2, 'distinct_nontrivial': nontrivial, 'exhaustive': True,
           'rule': 'TLC generates the structural universe (%d descriptors: sequences, maps, nested, with nil) which the harness '
                   'concretises in every container kind and several leaf types, plus corner tables of every primitive type; '
                   'every table is recorded with a fresh collator per pair and with one shared collator (and after a depth-limit '
                   'panic); TLC checks the laws over all pairs and all triples of each table; non-trivial = ordered pairs of '
                   'distinct values per table' % nuniv,
           'tables': len(tables), 'pairs': cells, 'triples_checked': triples, 'laws_failed': len(failed), 'stateful_pairs': len(stateful),
           'cyclic_cases': len(cases),
           'samples': [{'table': tables[len(tables) // 2]['name'], 'values': tables[len(tables) // 2]['show'][:6],
                        'rank_row': tables[len(tables) // 2]['rank'][0][:6]}]}
    return 'exploration', cov, ['values of one static type per table ("values of one type")',
                                'TLC evaluates the laws over recorded tables; IEEE arithmetic is executed, not reasoned about',
                                'the numeric universe is its corner structure, not all numbers']


def run_c07(ctx):
    return judge_collator(ctx, 'C07', C07_LAWS)


def run_c08(ctx):
    return judge_collator(ctx, 'C08', C08_LAWS)
