"""Engine for the sequential specification spec/World.tla.

  (A) TLC explores MCWorld for an operation family and exports every edge;
      each edge becomes a script (history from the empty world + the edge)
      executed on the real library by the harness.
  (B) the harness runs seeded random histories.
  Every recorded trace is validated by TLC against TraceWorld (= World.tla).
"""
import json, os, random, subprocess, collections, concurrent.futures as cf
from core import Infra, NCPU


def canon(x):
    return json.dumps(x, sort_keys=True, separators=(',', ':'))


# ---------------------------------------------------------------------------
# (A) edges from TLC

def gen_edges(ctx, family, maxtok, maxlen, maxlit, maxfuel=1, workers=8, timeout=900):
    cfg = '''SPECIFICATION Spec
CHECK_DEADLOCK FALSE
CONSTANTS
  Family = "%s"
  MaxTok = %d
  MaxLen = %d
  MaxLit = %d
  MaxFuel = %d
INVARIANTS TypeOK GenSound
''' % (family, maxtok, maxlen, maxlit, maxfuel)
    code, out = ctx.tlc('MCWorld', cfg, workers=workers, timeout=timeout, name='MC_' + family)
    edges = []
    seen = set()
    stats = {}
    for line in out.splitlines():
        if line.startswith('"{'):
            if line not in seen:           # the same edge may be generated for several fuel values
                seen.add(line)
                edges.append(json.loads(json.loads(line)))
        elif 'distinct states found' in line and 'states generated' in line and 'Progress' not in line:
            nums = [int(x.replace(',', '')) for x in line.replace(',', '').split() if x.isdigit()]
            stats = {'generated': nums[0], 'distinct': nums[1]}
    if code != 0 or 'Model checking completed. No error has been found.' not in out:
        tail = '\n'.join(l for l in out.splitlines() if not l.startswith('"{'))[-3000:]
        raise Infra('MCWorld(%s) did not complete cleanly (exit %d):\n%s' % (family, code, tail))
    if not edges or not stats:
        raise Infra('MCWorld(%s) exported no edges' % family)
    return edges, stats


def make_scripts(edges, seed, varied=True, pairs=False):
    """One script per edge: a real history from the empty world to the edge's
    pre-state (a shortest path over deterministic edges, chosen at random among
    the shortest ones per seed), then the edge itself (the only logged step)."""
    rnd = random.Random(seed)
    # post -> [(pre, event, relational)]: relational (nd) edges are usable too - the
    # model lists representative outcomes and the real call realises one of them;
    # a script whose prefix ends somewhere else is still a real history (the
    # logged step is validated from the world actually reached) and is counted
    # as not realising its edge (see realised())
    parents = collections.defaultdict(list)
    for ed in edges:
        if not ed['p']:
            pre, post = canon(ed['pre']), canon(ed['post'])
            if pre != post:
                parents[post].append((pre, ed['e'], bool(ed['nd'])))
    # BFS levels from the empty world
    succ = collections.defaultdict(list)
    for post, lst in parents.items():
        for pre, e, nd in lst:
            succ[pre].append(post)
    level = {'[]': 0}
    frontier = ['[]']
    while frontier:
        nxt = []
        for s in frontier:
            for t in succ.get(s, ()):
                if t not in level:
                    level[t] = level[s] + 1
                    nxt.append(t)
        frontier = nxt
    path_cache = {'[]': []}
    path_nd = {'[]': False}        # does the chosen path use a relational edge?

    def path(state):
        if state in path_cache:
            return path_cache[state]
        cands = [(pre, e, nd) for pre, e, nd in parents[state] if level.get(pre, 1 << 30) == level[state] - 1]
        det = [c for c in cands if not c[2]]
        pre, e, nd = rnd.choice(det or cands)
        p = path(pre) + [e]
        path_cache[state] = p
        path_nd[state] = nd or path_nd[pre]
        return p

    # every deterministic, non-panicking edge by its post-state (self-loops = read-only calls included)
    incoming = collections.defaultdict(list)
    for ed in edges:
        if not ed['nd'] and not ed['p']:
            incoming[canon(ed['post'])].append((canon(ed['pre']), ed['e']))

    def wander(state, k, start=None):
        """a random real history ending in `state`: k random steps backwards (any
        incoming edge, read-only calls and detours included), then a shortest
        path to where that walk started: hidden state left behind by earlier
        calls (caches, memos, stale indices) only shows after such histories"""
        steps = []
        cur = state
        for _ in range(k):
            cands = [(p, e) for p, e in incoming.get(cur, ()) if p in level]
            if not cands:
                break
            p, e = rnd.choice(cands)
            steps.append(e)
            cur = p
        if start is not None:
            start.append(cur)
        return path(cur) + list(reversed(steps))

    scripts = []
    unreachable = 0
    for i, ed in enumerate(edges):
        pre = canon(ed['pre'])
        if pre not in level:
            unreachable += 1
            continue
        steps = path(pre) + [ed['e']]
        scripts.append({'id': i, 'steps': steps, 'log_from': len(steps) - 1, 'pre': ed['pre']})
        if varied:
            steps = wander(pre, rnd.randint(2, 6)) + [ed['e']]
            scripts.append({'id': len(edges) + i, 'steps': steps, 'log_from': len(steps) - 1, 'pre': ed['pre']})
            # the same kind of history, but the harness looks at the objects (AsArray,
            # iterators, sizes: the projection) only after a random subset of the
            # steps, and not right before the logged call: views taken at some moments
            # and not at others are what exposes cached views.  The pre-world of the
            # logged call is then the model's (all steps before it are deterministic)
            st0 = []
            steps = wander(pre, rnd.randint(2, 6), st0)
            if steps and not path_nd.get(st0[0], True):
                steps = [dict(e, nv=(rnd.random() < 0.6)) for e in steps]
                steps[-1]['nv'] = True
                scripts.append({'id': 3 * len(edges) + i, 'steps': steps + [ed['e']], 'log_from': len(steps),
                                'pre': ed['pre'], 'blind': True})
    if pairs:
        # every pair of consecutive edges (e1 ; e2), both logged: what a call leaves
        # behind for the next one (flags, caches) is exercised for every combination.
        # e1 may be relational: the harness then continues from wherever it really got to
        by_pre = collections.defaultdict(list)
        for ed in edges:
            by_pre[canon(ed['pre'])].append(ed)
        nid = 4 * len(edges)
        for e1 in edges:
            pre = canon(e1['pre'])
            if e1['p'] or pre not in level:
                continue
            for e2 in by_pre.get(canon(e1['post']), ()):
                steps = path(pre) + [e1['e'], e2['e']]
                scripts.append({'id': nid, 'steps': steps, 'log_from': len(steps) - 2, 'pre': e1['pre']})
                nid += 1
    return scripts, unreachable


# ---------------------------------------------------------------------------
# harness runs (with resume after a call that never returns)

def _run_harness(ctx, argv, out, unit_flag='-start', watchdog='5s'):
    start = 0
    timeouts = 0
    while True:
        cmd = [ctx.vh] + argv + ['-out', out, unit_flag, str(start), '-watchdog', watchdog]
        r = subprocess.run(cmd, capture_output=True, text=True)
        if r.returncode == 0:
            return timeouts
        if r.returncode == 3:
            timeouts += 1
            for l in r.stdout.splitlines():
                if l.startswith('RESUME'):
                    start = int(l.split()[1])
            if timeouts >= 12:
                # every further one costs a watchdog period; the calls that did not
                # return are in the trace and will be rejected (that is the verdict)
                return timeouts
            continue
        raise Infra('harness failed (exit %d): %s %s' % (r.returncode, r.stdout[-2000:], r.stderr[-2000:]))


def run_scripts(ctx, codec, scripts, tag):
    sf = ctx.path('scripts_%s_%s.ndjson' % (tag, codec))
    with open(sf, 'w') as f:
        for s in scripts:
            d = {'id': s['id'], 'steps': s['steps'], 'log_from': s['log_from']}
            if s.get('blind'):
                d['pre'] = s['pre']
            f.write(json.dumps(d) + '\n')
    out = ctx.path('trace_%s_%s.ndjson' % (tag, codec))
    _run_harness(ctx, ['world-run', '-scripts', sf, '-codec', codec], out)
    return out


def realised(trace_file, scripts):
    """number of scripts whose unlogged prefix really ended in the pre-state of
    their edge (relational steps in the prefix may end elsewhere)"""
    byid = {s['id']: s for s in scripts}
    n = 0
    with open(trace_file) as f:
        for l in f:
            if l.startswith('{"t":"reset"'):
                x = json.loads(l)
                s = byid.get(x.get('sid'))
                if s is not None and canon(x['w']) == canon(s['pre']):
                    n += 1
    return n


def run_random(ctx, codec, family, n, steps, maxlen, tag):
    out = ctx.path('rtrace_%s_%s_%s.ndjson' % (tag, family, codec))
    _run_harness(ctx, ['world-rand', '-family', family, '-codec', codec, '-seed', str(ctx.seed),
                       '-n', str(n), '-steps', str(steps), '-maxlen', str(maxlen)], out)
    return out


# ---------------------------------------------------------------------------
# validation by TLC

TRACE_CFG = 'SPECIFICATION TraceSpec\nCHECK_DEADLOCK FALSE\nPOSTCONDITION Consumed\n'


def _chunks(lines, size):
    """Split at reset lines into chunks of about `size` lines."""
    chunks, cur = [], []
    for ln in lines:
        if cur and len(cur) >= size and ln.startswith('{"t":"reset"'):
            chunks.append(cur)
            cur = []
        cur.append(ln)
    if cur:
        chunks.append(cur)
    return chunks


def validate(ctx, trace_files, chunk=40000, par=None):
    """Validate traces against World.tla.  Returns (lines, rejects) where
    rejects is a list of dicts describing each rejected call line together
    with the history that led to it."""
    par = par or max(1, NCPU // 2)
    jobs = []
    for tf in trace_files:
        with open(tf) as f:
            lines = f.readlines()
        if not lines:
            continue
        for ci, ch in enumerate(_chunks(lines, chunk)):
            p = '%s.c%d' % (tf, ci)
            with open(p, 'w') as f:
                f.writelines(ch)
            jobs.append((tf, p, ch))
    total = sum(len(j[2]) for j in jobs)
    rejects = []

    def one(job):
        tf, p, ch = job
        code, out = ctx.tlc('TraceWorld', TRACE_CFG, env={'TRACE': p}, workers=1, timeout=1800,
                            name='TW', heap='3g')
        bad = []
        depth = None
        for l in out.splitlines():
            if l.startswith('<<"REJECT"'):
                bad.append(int(l.split(',')[1].strip(' >')))
            elif l.startswith('The depth of the complete state graph search is'):
                depth = int(l.split()[-1].rstrip('.'))
        if code != 0 or depth != len(ch) + 1:
            raise Infra('TraceWorld failed on %s (exit %d, depth %s, lines %d):\n%s' % (
                p, code, depth, len(ch), out[-3000:]))
        return tf, ch, bad

    with cf.ThreadPoolExecutor(max_workers=par) as ex:
        for tf, ch, bad in ex.map(one, jobs):
            for ln in bad:
                rejects.append(describe(tf, ch, ln))
            # String() of an object disagrees with its AsArray(): not a matter of the
            # state machine (World.tla does not see it) but of the text (C10)
            ntv = 0
            for i, l in enumerate(ch):
                if '"tv":' in l and ntv < 20:
                    ntv += 1
                    d = describe(tf, ch, i + 1)
                    d['textview'] = d['line'].get('tv', '')
                    rejects.append(d)
    return total, rejects


def describe(tf, ch, ln):
    """ln is 1-based within the chunk."""
    x = json.loads(ch[ln - 1])
    # walk back to the reset line of this history
    j = ln - 1
    while j > 0 and not ch[j].startswith('{"t":"reset"'):
        j -= 1
    hist = [json.loads(l) for l in ch[j:ln - 1]]
    pre = json.loads(ch[ln - 2])['w'] if ln >= 2 else []
    return {'file': os.path.basename(tf), 'line': x, 'pre': pre, 'history': hist}


def script_of(rej, scripts_by_id=None):
    """Reconstruct a replayable script for a rejected line."""
    x = rej['line']
    if scripts_by_id is not None and x['sid'] in scripts_by_id:
        s = scripts_by_id[x['sid']]
        if s.get('blind'):
            return {'id': 0, 'steps': s['steps'], 'log_from': s['log_from'], 'blind': True, 'pre': s['pre']}
        return {'id': 0, 'steps': s['steps'], 'log_from': 0}
    steps = [{'k': h['k'], 'm': h['m'], 'self': h['self'], 'args': h['args'], 'ec': h.get('ec', '')}
             for h in rej['history'] if h['t'] == 'call']
    steps.append({'k': x['k'], 'm': x['m'], 'self': x['self'], 'args': x['args'], 'ec': x.get('ec', '')})
    return {'id': 0, 'steps': steps, 'log_from': 0}


# ---------------------------------------------------------------------------
# signatures for known findings: computed from the failing observation

def signature(rej):
    x = rej['line']
    pre = rej['pre']
    op = '%s.%s' % (x['k'], x['m'])
    sig = {'engine': 'world', 'op': op,
           'observed': 'timeout' if x['pc'] == 'timeout' else ('panic' if x['p'] else 'returned')}
    pred = []
    try:
        if x['self']:
            n = len(pre[x['self'] - 1]['s'])
            a = x['args']
            if x['m'] in ('InsertValue', 'InsertValues') and a and isinstance(a[0], int):
                pred.append('slot>size' if a[0] > n else 'slot<=size')
                if x['m'] == 'InsertValues':
                    pred.append('empty-operand' if len(pre[a[1] - 1]['s']) == 0 else 'nonempty-operand')
            if x['m'] == 'SetValues' and a:
                k = len(pre[a[1] - 1]['s'])
                i = a[0]
                norm = i if i > 0 else i + n + 1
                pred.append('negative-index' if i < 0 else 'positive-index')
                pred.append('overrun' if (1 <= norm <= n and norm + k - 1 > n) else 'in-range')
    except Exception:
        pass
    sig['pred'] = '&'.join(pred)
    return sig


def judge(ctx, rejects, codec_of, scripts_by_id=None):
    """Turn rejected trace lines into violations (or known findings)."""
    for rej in rejects:
        x = rej['line']
        what = '%s.%s(self=%s, args=%s) on %s: %s%s; pre-world %s; observed world %s' % (
            x['k'], x['m'], x['self'], x['args'], rej['file'],
            ('panicked [%s] %s' % (x['pc'], x['pm'])) if x['p'] else ('returned %s' % json.dumps(x['r'])),
            '', canon(rej['pre'])[:300], canon(x['w'])[:300])
        if rej.get('textview'):
            what += ' | accepted by World.tla, but the text disagrees: ' + rej['textview']
        for o in x['w']:
            if isinstance(o, dict) and ('incoherent' in o or 'broken' in o):
                what += ' | views disagree: %s' % (o.get('incoherent') or o.get('broken'))
        replay = {'engine': 'world', 'codec': codec_of(rej['file']),
                  'script': script_of(rej, scripts_by_id), 'observed': x, 'pre': rej['pre'],
                  'signature': signature(rej)}
        ctx.violation(what, replay)
