"""Shared machinery of the /verif checks: scratch directories, building the Go
harness from /repo's current working tree, running TLC, evidence files,
known findings and verdicts.

Verdict policy (DESIGN.md section 3.5): a VIOLATION is only ever printed for a
behaviour the real code exhibited and the property-level specification
rejects; everything that goes wrong with the machinery itself is `Infra`
(exit 2)."""
import json, os, re, shutil, subprocess, sys, tempfile, time, hashlib

VERIF = os.path.dirname(os.path.dirname(os.path.abspath(__file__)))
REPO = os.environ.get('VERIF_REPO', '/repo')     # the tree under test (a scratch worktree when trying seeded changes)
SPEC = os.path.join(VERIF, 'spec')
HARNESS = os.path.join(VERIF, 'harness')
EVID = os.environ.get('VERIF_EVID') or os.path.join(VERIF, 'evidence')
REPLAYS = os.path.join(EVID, 'replays')
NCPU = os.cpu_count() or 4


import threading
_LOCK = threading.Lock()


class Infra(Exception):
    """The machinery failed (build, TLC crash, timeout of a tool): exit 2."""


def goenv():
    e = dict(os.environ)
    e.update(GOFLAGS='-mod=mod', GOPROXY='off', GOSUMDB='off', GOTOOLCHAIN='local')
    return e


class Ctx:
    """One run of one check."""

    def __init__(self, prop, tier=None, seed=None):
        self.prop = prop
        self.tier = tier or os.environ.get('VERIF_TIER') or 'quick'
        if self.tier not in ('quick', 'thorough'):
            self.tier = 'quick'
        try:
            self.seed = int(seed if seed is not None else os.environ.get('VERIF_SEED', '1'))
        except ValueError:
            self.seed = 1
        self.t0 = time.time()
        self.tmp = tempfile.mkdtemp(prefix='verif-%s-' % prop)
        self.vh = None
        self.violations = []      # dicts
        self.known = []           # (finding id, what)
        self.drift = []
        self.notes = []
        self._nrep = 0

    # -- scratch ----------------------------------------------------------
    def path(self, *p):
        return os.path.join(self.tmp, *p)

    def cleanup(self):
        shutil.rmtree(self.tmp, ignore_errors=True)

    @property
    def quick(self):
        return self.tier == 'quick'

    # -- harness ----------------------------------------------------------
    def build_harness(self, race=False):
        """go build -tags verif of /verif/harness against /repo/v4 as it is now."""
        out = self.path('vh-race' if race else 'vh')
        sums = os.path.join(HARNESS, 'go.sum')
        try:
            shutil.copyfile(os.path.join(REPO, 'v4', 'go.sum'), sums)
        except OSError:
            pass
        cmd = ['go', 'build', '-tags', 'verif', '-o', out]
        if REPO != '/repo':
            # same harness, other tree: an alternative go.mod whose replace points there
            modf = self.path('alt.mod')
            with open(os.path.join(HARNESS, 'go.mod')) as f:
                txt = f.read().replace('=> /repo/v4', '=> %s/v4' % REPO)
            with open(modf, 'w') as f:
                f.write(txt)
            shutil.copyfile(os.path.join(REPO, 'v4', 'go.sum'), self.path('alt.sum'))
            cmd += ['-modfile', modf, '-trimpath']     # path-independent objects: the build cache does not grow with every scratch tree
        if race:
            cmd.insert(2, '-race')
        cmd.append('./cmd/vh')
        r = subprocess.run(cmd, cwd=HARNESS, env=goenv(), capture_output=True, text=True)
        if r.returncode != 0:
            raise Infra('harness build failed:\n' + r.stdout + r.stderr)
        if not race:
            self.vh = out
        return out

    # -- TLC --------------------------------------------------------------
    def specdir(self):
        with _LOCK:
            d = self.path('spec')
            if not os.path.isdir(d):
                shutil.copytree(SPEC, d)
            return d

    def tlc(self, module, cfg, env=None, workers=1, timeout=900, extra=(), name=None, heap=None, jvm=()):
        """Run TLC on spec/<module>.tla with the given cfg text.  Returns stdout.
        Each run gets its own cfg file and metadir."""
        d = self.specdir()
        name = name or module
        with _LOCK:
            self._n = getattr(self, '_n', 0) + 1
            cfgname = '%s_%d' % (name, self._n)
        with open(os.path.join(d, cfgname + '.cfg'), 'w') as f:
            f.write(cfg)
        meta = self.path('meta_%s' % cfgname)
        e = dict(os.environ)
        if env:
            e.update(env)
        # TLC leaves an empty directory per run in java.io.tmpdir: keep it in the scratch directory
        jtmp = self.path('jtmp')
        os.makedirs(jtmp, exist_ok=True)
        java = ['java', '-XX:+UseParallelGC', '-Xss64m', '-Djava.io.tmpdir=' + jtmp]
        if heap:
            java.append('-Xmx' + heap)
        java += list(jvm)
        cmd = ['timeout', str(timeout)] + java + [
            '-cp', '/opt/veriftools/tla/tla2tools.jar:/opt/veriftools/tla/CommunityModules-deps.jar',
            'tlc2.TLC', '-workers', str(workers), '-metadir', meta, '-config', cfgname + '.cfg'] + list(extra) + [module]
        r = subprocess.run(cmd, cwd=d, env=e, capture_output=True, text=True)
        shutil.rmtree(meta, ignore_errors=True)
        if r.returncode == 124:
            raise Infra('TLC timed out after %ss on %s' % (timeout, cfgname))
        return r.returncode, r.stdout + r.stderr

    # -- verdicts -----------------------------------------------------------
    def replay_path(self):
        os.makedirs(REPLAYS, exist_ok=True)
        self._nrep += 1
        return os.path.join(REPLAYS, '%s-%s-%d-%d.json' % (self.prop, self.tier, self.seed, self._nrep))

    def violation(self, what, replay):
        """A behaviour of the real code rejected by the property-level spec.
        `replay` is a JSON-serialisable document (see DESIGN Appendix C)."""
        fid = match_known(self.prop, replay)
        if fid is not None:
            if fid['id'] not in [k[0] for k in self.known]:
                self.known.append((fid['id'], fid['what']))
            return False
        if len(self.violations) < 25:
            p = self.replay_path()
            replay = dict(replay)
            replay.setdefault('property', self.prop)
            replay.setdefault('seed', self.seed)
            replay['what'] = what
            with open(p, 'w') as f:
                json.dump(replay, f, indent=1)
            self.violations.append({'what': what, 'replay': p})
        else:
            self.violations.append({'what': what, 'replay': None})
        return True

    def finish(self, level, coverage, assumptions=()):
        """Write evidence, print verdict lines, return the exit code."""
        os.makedirs(EVID, exist_ok=True)
        for fid, what in self.known:
            print('KNOWN-FINDING: property=%s %s: %s' % (self.prop, fid, what))
        for d in self.drift[:20]:
            print('MODEL-DRIFT: %s' % d)
        seen = set()
        for v in self.violations:
            if v['replay'] and v['replay'] not in seen:
                seen.add(v['replay'])
                print('VIOLATION property=%s replay=%s' % (self.prop, v['replay']))
                print('  ' + v['what'][:400])
        coverage = dict(coverage)
        coverage.setdefault('known_findings_seen', [k[0] for k in self.known])
        coverage.setdefault('model_drift', len(self.drift))
        if self.notes:
            coverage.setdefault('notes', self.notes)
        ev = {'property_id': self.prop, 'tier': self.tier, 'seed': self.seed, 'level': level,
              'coverage': coverage, 'assumptions': list(assumptions),
              'wall_s': round(time.time() - self.t0, 2), 'violations': len(self.violations)}
        with open(os.path.join(EVID, self.prop + '.json'), 'w') as f:
            json.dump(ev, f, indent=1)
        print('%s %s tier=%s seed=%d wall=%.1fs violations=%d known=%d' % (
            self.prop, 'FAIL' if self.violations else 'ok', self.tier, self.seed,
            time.time() - self.t0, len(self.violations), len(self.known)))
        return 1 if self.violations else 0


# ---------------------------------------------------------------------------
# known findings (read-only at run time)

_KNOWN = None


def known_findings():
    global _KNOWN
    if _KNOWN is None:
        try:
            with open(os.path.join(VERIF, 'known_findings.json')) as f:
                _KNOWN = [x for x in json.load(f).get('findings', []) if x.get('status') == 'open']
        except FileNotFoundError:
            _KNOWN = []
    return _KNOWN


def match_known(prop, replay):
    """A violation matches an open finding iff every field of the finding's
    signature equals the corresponding field of the violation's signature."""
    sig = replay.get('signature') or {}
    for f in known_findings():
        if f.get('property') != prop:
            continue
        want = f.get('signature', {})
        if want and all(_sigmatch(sig.get(k), v) for k, v in want.items()):
            return f
    return None


def _sigmatch(have, want):
    if isinstance(want, list):
        return have in want
    return have == want


def run_check(prop, body):
    """Common main(): body(ctx) -> (level, coverage, assumptions)."""
    ctx = Ctx(prop)
    try:
        level, coverage, assumptions = body(ctx)
        code = ctx.finish(level, coverage, assumptions)
    except Infra as e:
        print('INFRA property=%s: %s' % (prop, e), file=sys.stderr)
        print('INFRA property=%s (machinery failure, not a verdict)' % prop)
        code = 2
    finally:
        ctx.cleanup()
    return code
