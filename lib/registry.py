import worldchecks
import queuechecks

CHECKS = {}
for _p in worldchecks.CONF:
    CHECKS[_p] = worldchecks.run
CHECKS['C04'] = queuechecks.run_c04
CHECKS['C05'] = queuechecks.run_c05


def replay(prop, path):
    import replayer
    return replayer.replay(prop, path)
