import worldchecks

CHECKS = {}
for _p in worldchecks.CONF:
    CHECKS[_p] = worldchecks.run


def replay(prop, path):
    import replayer
    return replayer.replay(prop, path)
