import worldchecks
import queuechecks
import agentchecks
import cdcnchecks

CHECKS = {}
for _p in worldchecks.CONF:
    CHECKS[_p] = worldchecks.run
CHECKS['C04'] = queuechecks.run_c04
CHECKS['C05'] = queuechecks.run_c05
CHECKS['C06'] = queuechecks.run_c06
CHECKS['C09'] = agentchecks.run_c09
CHECKS['C07'] = agentchecks.run_c07
CHECKS['C10'] = cdcnchecks.run_c10
CHECKS['C11'] = cdcnchecks.run_c11
CHECKS['C20'] = cdcnchecks.run_c20
CHECKS['C19'] = cdcnchecks.run_c19
CHECKS['C12'] = cdcnchecks.run_c12
CHECKS['C08'] = agentchecks.run_c08


def replay(prop, path):
    import replayer
    return replayer.replay(prop, path)
